"""C14  Numbered reactants behave as a keyed store under COPY / DELETE / SAVE / USE / *_MODIFY / *_MIX / RUN_CELLS.

Shape H: breadth-first exploration of keyword-operation histories on the real library.  A state is the store of
numbered entities as `DUMP -all` shows it (11 kinds x user numbers); it is reached by replaying the history on a freshly
loaded instance, its successors are generated inside forked copies of the driver process (one fork per operation of the
alphabet), states are de-duplicated by the canonical text of the dump between depths.

After EVERY operation the observed store is compared with the boring reference map of mc/oracles/c14_store.py:
key set, bitwise identity of untouched entries, COPY targets == source, definitions == the definition's content,
*_MODIFY changed exactly the named quantity, *_MIX = linear combination of the extensive quantities, SAVE stored the
calculated result (BASIC read-outs of the same simulation) under every number of the range, USE read the current content
(element inventory of sources vs results), operations on missing entities fail or are ignored and change nothing,
RUN_CELLS == the spelled-out USE ... SAVE sequence, one-simulation combinations == the documented order
RUN_CELLS, _MIX, COPY, DUMP, DELETE, and the component list contains every element present in a defined reactant.
"""
import json
import os
import re

from .. import core, phr, build
from ..oracles import c14_store as S
from ..oracles import raw

PROP = "C14"
DBNAME = "phreeqc.dat"
DBPATH = os.path.join(build.REPO, "database", DBNAME)

RTOL_READOUT = 1e-12      # stored value vs BASIC read-out of the same simulation (rounding of one product/quotient)
RTOL_MIX = 1e-12          # *_MIX: linear combination of two stored numbers
RTOL_INVENTORY = 1e-6     # USE reads the current content: coarse element inventory (fine conservation is C02)
RTOL_EQUIV = 1e-12
RTOL_RELATED = 1e-8       # re-synchronisation of sites tied to a reactant rewrites sums that had converged to the solver tolerance
ATOL_EQUIV = 1e-24        # mol: less than one atom
RTOL_DEF, ATOL_DEF = 1e-6, 1e-9   # SOLUTION definition vs the same definition in a fresh instance (iterative result)        # RUN_CELLS / one-simulation combination vs the spelled-out sequence


# ------------------------------------------------------------------------------------------------ alphabet
def D(kind, var, spec):
    return {"op": "def", "kind": kind, "var": var, "spec": spec}


def C(kind, src, spec):
    return {"op": "copy", "kind": kind, "src": src, "spec": spec}


def X(what, lst="", more=None):
    d = {"op": "delete", "what": what, "list": lst}
    if more:
        d["more"] = [list(m) for m in more]
    return d


def M(kind, n, i=0):
    path, value = S.MODIFY[kind][i]
    return {"op": "modify", "kind": kind, "n": n, "path": list(path), "value": value}


def MX(kind, spec, parts):
    return {"op": "mix", "kind": kind, "spec": spec, "parts": [[s, f] for s, f in parts]}


def R(sol, uses, target):
    saves = [["solution", target]] + [[k, target] for k, _ in uses if k in S.SAVEABLE]
    return {"op": "react", "sol": list(sol), "uses": [list(u) for u in uses], "saves": saves}


def RC(lst):
    return {"op": "run_cells", "list": lst}


def combo(name, text, pre, post):
    """One simulation holding several keyword blocks; `pre` = the equivalent sequence of single operations up to the
    DUMP of that simulation, `post` = the rest (documented order RUN_CELLS, _MIX, COPY, DUMP, DELETE; definitions and
    *_MODIFY act when they are read, SAVE at the end of the reaction calculation)."""
    return {"op": "combo", "name": name, "text": text, "pre": pre, "post": post}


def failing(name, tail):
    """A simulation that fails (it USEs solution 9 and reaction 9, which never exist) and also holds an
    end-of-simulation action."""
    return {"op": "failing", "name": name, "text": "USE solution 9\nUSE reaction 9\n" + tail + "END\n"}


def _strip_end(op):
    t = S.op_text(op)
    assert t.endswith("END\n")
    return t[:-4]


def make_combos():
    out = []
    a, b = C("solution", 1, "3"), X("solution", "1")
    out.append(combo("delete+copy", _strip_end(b) + _strip_end(a) + "DUMP\n -all\nEND\n", [a], [b]))
    a, b = RC("1"), C("cell", 1, "3")
    out.append(combo("copy-cell+run_cells", _strip_end(b) + _strip_end(a) + "DUMP\n -all\nEND\n", [a, b], []))
    a, b = MX("solution", "3", [(1, "0.5"), (2, "0.5")]), C("solution", 3, "2")
    out.append(combo("copy+solution_mix", _strip_end(b) + _strip_end(a) + "DUMP\n -all\nEND\n", [a, b], []))
    a, b = RC("2"), X("cells", "2")
    out.append(combo("delete-cells+run_cells", _strip_end(b) + _strip_end(a) + "DUMP\n -all\nEND\n", [a], [b]))
    a, b, c = D("solution", "A", "3"), C("solution", 3, "1"), X("solution", "3")
    out.append(combo("delete+copy+define", _strip_end(c) + _strip_end(b) + _strip_end(a) + "DUMP\n -all\nEND\n", [a, b], [c]))
    a, b = M("solution", 1), C("solution", 1, "3")
    out.append(combo("copy+modify", _strip_end(b) + _strip_end(a) + "DUMP\n -all\nEND\n", [a, b], []))
    a, b = MX("exchange", "3", [(1, "0.25"), (2, "0.5")]), X("exchange", "1")
    out.append(combo("delete+exchange_mix", _strip_end(b) + _strip_end(a) + "DUMP\n -all\nEND\n", [a], [b]))
    a, b = X("all"), C("cell", 2, "3")
    out.append(combo("delete-all+copy-cell", _strip_end(a) + _strip_end(b) + "DUMP\n -all\nEND\n", [b], [a]))
    return out


def alphabet(kinds=None):
    """The operation alphabet; `kinds` restricts the per-kind operations to a subset of the entity kinds (operations on
    cells / all kinds are always included)."""
    ks = [k for k in S.KIND_NAMES if kinds is None or k in kinds]
    ops = []
    for k in ks:
        ops += [D(k, "A", "1"), D(k, "B", "2-3"), D(k, "B", "")]
    for k in ks:
        ops += [C(k, 1, "2-3"), C(k, 2, "1-3"), C(k, 3, "1")]
    ops += [C("cell", 1, "2"), C("cell", 1, "2-3"), C("cell", 2, "1-3"), C("cell", 3, "1")]
    for k in ks:
        ops += [X(k, "1"), X(k, "2-3"), X(k, "")]
    ops += [X("cells", "1"), X("cells", "2-3"), X("cells", "1 3"), X("all"), X("cells", "-1")]
    # several option lines in one DELETE block, cell-wise and kind-wise mixed, in both orders
    k0 = ks[0]
    ops += [X("cells", "3", [(k0, "")]), X(k0, "", [("cells", "3")]), X("cells", "", [(k0, "2")]), X(k0, "2", [("cells", "")]),
            X(k0, "1", [(ks[-1], "2-3")])]
    for k in ks:
        for i in range(len(S.MODIFY.get(k, []))):
            ops += [M(k, 2, i), M(k, 3, i)]
    for k in ks:
        if k in S.MIXKEY:
            ops.append(MX(k, "3", [(1, "0.25"), (2, "0.5")]))
    if "solution" in ks:
        ops.append(MX("solution", "2-3", [(1, "0.25"), (2, "0.5")]))
    if "exchange" in ks:
        ops.append(MX("exchange", "1-2", [(1, "1")]))
    for k in S.REACTANTS:
        if k in ks:
            ops.append(R(("solution", 1), [(k, 2)], "3"))
    for k in S.SAVEABLE[1:]:
        if k in ks:
            ops.append(R(("mix", 2), [(k, 1)], "2-3"))
    ops += [R(("solution", 2), [("reaction", 1)], "1"), R(("solution", 3), [("reaction", 1)], "1")]
    ops.append(R(("solution", 2), [("exchange", 2)], ""))          # SAVE without a number = 1
    ops += [RC("1"), RC("2-3"), RC("1-3"), RC("-1")]
    ops += [failing("DELETE", _strip_end(X("cells", "1"))), failing("COPY", _strip_end(C("cell", 2, "3")))]
    for c in make_combos():
        if kinds is None or "solution" in ks or "exchange" in ks:
            ops.append(c)
    return ops


INITS = {
    "E": [],
    "P12": [D(k, "A", "1") for k in S.KIND_NAMES if k != "mix"] + [D(k, "B", "2") for k in S.KIND_NAMES if k != "mix"]
           + [D("mix", "A", "1"), D("mix", "B", "2")],
    # every kind defined once singly (1) and once as a range (2-3): what a range definition leaves behind on its head
    # entry is exercised by the operations that follow
    "R23": [D(k, "A", "1") for k in S.KIND_NAMES if k != "mix"] + [D(k, "B", "2-3") for k in S.KIND_NAMES if k != "mix"]
           + [D("mix", "A", "1"), D("mix", "B", "2-3")],
}
# a surface whose sites are tied to a kinetic reactant, equilibrated, reacted once and saved (so that it carries sites in
# proportion to the reactant's moles and a charge): the store then holds entries that the engine links behind the scenes
INITS["KS"] = [D("solution", "A", "1"),
               {"op": "text", "name": "inert kinetic reactant + surface tied to it", "keys": [["kinetics", 1], ["surface", 1]],
                # the rate is zero: the reactant's moles stay exactly 1, so re-synchronising the sites with them changes no digit
                "text": ("RATES\n Inert\n -start\n 10 SAVE 0\n -end\nKINETICS 1\n Inert\n -formula SiO2 1\n -m 1\n -steps 100\n"
                         "SURFACE 1\n Hfo_w Inert kinetic_reactant 0.001 600\n -equilibrate 1\nEND\n")},
               R(("solution", 1), [("surface", 1), ("kinetics", 1)], "1")]
KS_LINKED = [("kinetics", 1), ("surface", 1)]       # changing the reactant legitimately rescales the surface: ops naming either are left out
KIND_GROUPS = [["solution", "exchange", "surface"], ["equilibrium_phases", "gas_phase", "solid_solutions"],
               ["kinetics", "mix", "reaction"], ["reaction_temperature", "reaction_pressure", "solution"]]


def opclass(op):
    o = op["op"]
    if o in ("def", "copy", "modify", "mix"):
        return "%s:%s" % (o, op["kind"])
    if o == "delete":
        return "delete:%s%s%s" % (op["what"], "" if op["what"] == "all" or op["list"].strip() else ":whole-kind", "+more" if op.get("more") else "")
    if o == "combo":
        return "combo:%s" % op["name"]
    if o == "failing":
        return "failing+%s" % op["name"]
    return o


# ------------------------------------------------------------------------------------------------ database facts
_dbfacts = {}


def dbfacts():
    """Primary aqueous master elements (SOLUTION_MASTER_SPECIES, element names without a valence) and the phase
    formulas, read from the database text."""
    if not _dbfacts:
        prim = set()
        sect = None
        for line in open(DBPATH, encoding="latin-1"):
            line = line.split("#")[0].rstrip()
            if not line.strip():
                continue
            if not line[0].isspace() and re.match(r"^[A-Z_]+\s*$", line.strip()) and line.strip().upper() == line.strip():
                sect = line.strip()
                continue
            if sect == "SOLUTION_MASTER_SPECIES":
                el = line.split()[0]
                if "(" not in el:
                    prim.add(el)
        _dbfacts["primary"] = prim - {"H", "O", "E", "Alkalinity"}
        _dbfacts["db"] = raw.load_db(DBPATH)
    return _dbfacts


_elt_cache = {}


def elements_of(kind, body):
    """Elements present (non-zero amount) in one entity, from its dump text and the database's phase formulas."""
    key = (kind, body)
    if key in _elt_cache:
        return _elt_cache[key]
    f = dbfacts()
    db = f["db"]
    p = S.body_paths(body)
    out = set()

    def val(v):
        try:
            return float(v[0])
        except (ValueError, IndexError):
            return 0.0

    if kind == "solution":
        for path, v in p.items():
            if len(path) == 2 and path[0] == "totals" and val(v) > 0:
                out.add(path[1].split("(")[0])
    elif kind in ("exchange", "surface"):
        for path, v in p.items():
            if len(path) == 3 and path[0].startswith("component ") and path[1] == "totals" and val(v) > 0:
                out.add(path[2])
    elif kind in ("equilibrium_phases", "gas_phase"):
        for path, v in p.items():
            if len(path) == 2 and path[0].startswith("component ") and path[1] == "moles" and val(v) > 0:
                out.update(db.phase_elts(path[0].split(None, 1)[1])[0])
    elif kind == "solid_solutions":
        for path, v in p.items():
            if len(path) == 3 and path[1].startswith("component ") and path[2] == "moles" and val(v) > 0:
                out.update(db.phase_elts(path[1].split(None, 1)[1])[0])
    elif kind == "kinetics":
        for path, v in p.items():
            if len(path) == 3 and path[0].startswith("component ") and path[1] == "namecoef":
                m = val(p.get((path[0], "m"), ["0"]))
                if m > 0 and val(v) != 0:
                    out.update(db.reactant_elts(path[2])[0])
    elif kind == "reaction":
        for path, v in p.items():
            if len(path) == 2 and path[0] == "reactant_list" and val(v) != 0:
                out.update(db.reactant_elts(path[1])[0])
    res = frozenset(e for e in out if e in f["primary"])
    _elt_cache[key] = res
    return res


# ------------------------------------------------------------------------------------------------ the live side
class Unobservable(Exception):
    """A simulation that holds nothing but DUMP -all fails, twice in a row."""


class Live:
    """One instance with the database loaded + what is observed of it."""

    def __init__(self):
        self.s = phr.session(DBNAME, reload=True)
        self.d = self.s.d
        self.d.call("s0", "c", "SetDumpStringOn", 1)
        self.d.call("s0", "c", "SetDumpFileOn", 0)
        self.runs = 0
        self.dump_retries = 0

    def run(self, text):
        self.runs += 1
        return self.s.run(text)

    def dump_string(self):
        return self.d.call("s0", "c", "GetDumpString")

    def observe(self):
        """(store, meta, components) through a DUMP -all simulation of its own."""
        self.runs += 1
        # components first: listing them rewrites the -totals work space of KINETICS entries (Phreeqc::list_components
        # calls calc_dummy_kinetic_reaction_tally on the stored entity), so the dump is taken at that fixed point
        comps = self.d.obs("s0", "c", "c")["components"]
        rc = self.d.call("s0", "c", "RunString", "DUMP\n -all\nEND\n")
        if rc != 0:
            # a MIX entry that was just created (defined / copied) and names a solution which is not in the store is
            # reported as an input error by the next simulation, whatever it contains; the one after that runs
            self.dump_retries += 1
            rc = self.d.call("s0", "c", "RunString", "DUMP\n -all\nEND\n")
        if rc != 0:
            raise Unobservable(self.d.call("s0", "c", "GetErrorString")[:300])
        store, meta, _ = S.split(self.dump_string())
        return store, meta, comps


_canon = {}


def canonical_content(kind, var):
    """Content of a definition = what `KEYWORD 1 <body>` leaves in an otherwise empty, freshly loaded instance
    (differential oracle: state reached from the initial state)."""
    if not _canon:
        s = phr.session(DBNAME, reload=True)
        s.d.call("s0", "c", "SetDumpStringOn", 1)
        s.d.call("s0", "c", "SetDumpFileOn", 0)
        for k in S.KIND_NAMES:
            for v in sorted(S.DEFS[k]):
                s.load()
                if k == "mix":                      # a MIX must refer to existing solutions
                    s.run(S.op_text(D("solution", "A", "1-2")))
                s.run(S.op_text(D(k, v, "1")))
                s.d.obs("s0", "c", "c")             # same observation order as Live.observe
                s.d.call("s0", "c", "RunString", "DUMP\n -all\nEND\n")
                st, _, _ = S.split(s.d.call("s0", "c", "GetDumpString"))
                if (k, 1) not in st:
                    raise RuntimeError("definition %s/%s did not create entry 1" % (k, v))
                _canon[(k, v)] = st[(k, 1)]
    return _canon[(kind, var)]


def state_key(store, comps):
    return core.sha(repr(sorted(store.items())) + "|" + ",".join(comps))


def first_error(err):
    for l in err.splitlines():
        if l.startswith("ERROR:"):
            return re.sub(r"-?\d+(\.\d+)?", "N", l[6:].strip())[:80]
    return ""


# ------------------------------------------------------------------------------------------------ judging one transition
def _f(tokens):
    try:
        return float(tokens[0])
    except (ValueError, IndexError, TypeError):
        return None


def _close(a, b, rtol, atol=0.0):
    return abs(a - b) <= atol + rtol * max(abs(a), abs(b))


def _generic(path):
    return "/".join(re.sub(r"^(component|solid_solution|charge_component) .*", r"\1", p) for p in path)


EXTENSIVE = {      # kind -> predicate on a path: quantities that *_MIX sums ("a summation of moles of the various reactants")
    "solution": lambda p: (len(p) == 2 and p[0] == "totals") or p in (("total_h",), ("total_o",), ("cb",), ("mass_water",), ("total_alkalinity",)),
    "equilibrium_phases": lambda p: len(p) == 2 and p[0].startswith("component ") and p[1] == "moles",
    "exchange": lambda p: len(p) == 3 and p[0].startswith("component ") and p[1] == "totals",
    "surface": lambda p: len(p) == 3 and p[0].startswith("component ") and p[1] == "totals",
    "gas_phase": lambda p: len(p) == 2 and p[0].startswith("component ") and p[1] == "moles",
    "solid_solutions": lambda p: len(p) == 3 and p[1].startswith("component ") and p[2] == "moles",
    "kinetics": lambda p: len(p) == 2 and p[0].startswith("component ") and p[1] == "m",
}

READOUT = {        # read-out heading -> (kind, path)
    "tot_Na": ("solution", ("totals", "Na")), "tot_Cl": ("solution", ("totals", "Cl")), "tot_Ca": ("solution", ("totals", "Ca")),
    "tot_K": ("solution", ("totals", "K")), "tot_Mg": ("solution", ("totals", "Mg")), "water": ("solution", ("mass_water",)),
    "pH": ("solution", ("pH",)), "pe": ("solution", ("pe",)), "tc": ("solution", ("temp",)),
    "equi_Calcite": ("equilibrium_phases", ("component Calcite", "moles")), "equi_Gypsum": ("equilibrium_phases", ("component Gypsum", "moles")),
    "gas_CO2": ("gas_phase", ("component CO2(g)", "moles")), "gas_N2": ("gas_phase", ("component N2(g)", "moles")),
    "ss_Calcite": ("solid_solutions", ("solid_solution CaSrCO3", "component Calcite", "moles")),
    "ss_Strontianite": ("solid_solutions", ("solid_solution CaSrCO3", "component Strontianite", "moles")),
    "kin_Quartz": ("kinetics", ("component Quartz", "m")), "kin_Kfs": ("kinetics", ("component K-feldspar", "m")),
}


def readout_ok(kind, stored, calculated):
    """Stored quantity vs the BASIC read-out of the simulation that stored it.  S_S() reports 0 for a solid solution
    that is not present while the entity keeps a numerical floor (< 1e-12 mol) for its components."""
    if kind == "solid_solutions" and calculated == 0.0 and abs(stored) < 1e-12:
        return True
    return _close(stored, calculated, RTOL_READOUT, 1e-300)


def blocks_of(store, keys):
    """raw.parse()-style blocks for the inventory functions of mc/oracles/raw.py."""
    text = "".join("%s %d\n%s\n" % (S.RAWKEY[k[0]], k[1], store[k]) for k in keys if k in store)
    return raw.parse(text)


def reaction_addition(body):
    """Moles of each element added by a REACTION entity in a (non-incremental) batch reaction = last step."""
    db = dbfacts()["db"]
    p = S.body_paths(body)
    steps = []
    for path, v in sorted(p.items()):
        if path[0] == "steps" and len(path) == 2:
            steps += [float(x) for x in v]
    if not steps:
        return {}
    unit = {"mol": 1.0, "mmol": 1e-3, "umol": 1e-6}[p[("units",)][0].lower()]
    amount = steps[-1] * unit
    if _f(p.get(("equal_increments",), ["0"])) == 1:
        amount = steps[0] * unit
    out = {}
    for path, v in p.items():
        if path[0] == "reactant_list" and len(path) == 2:
            elts, _ = db.reactant_elts(path[1])
            for e, c in elts.items():
                out[e] = out.get(e, 0.0) + c * float(v[0]) * amount
    return out


def judge(op, before, meta_b, after, meta_a, comps, res, exp, problems, diags):
    """Compare the observed transition with the model's expectation `exp` (S.model_apply)."""
    oc = opclass(op)
    name = S.op_name(op)
    failed = res["rc"] != 0

    def P(fp, what):
        problems.append((fp, "%s\n  operation: %s" % (what, name)))

    if exp["must_fail"]:
        if not failed:
            P("missing-source-no-error op=%s" % oc, "an operation that USEs an entity which is not in the store completed without error")
        if after != before:
            ch = sorted({k[0] for k in set(after) ^ set(before)} | {k[0] for k in after if k in before and after[k] != before[k]})
            if op["op"] == "failing":
                P("failed-simulation-leaves-%s-armed" % op["name"], "the simulation failed (%s); its %s was not executed then but by the next simulation "
                  "(a simulation that holds nothing but DUMP -all): entries of kinds %s changed" % (first_error(res["err"]), op["name"], ",".join(ch)))
            else:
                P("failed-operation-changed-store op=%s kinds=%s" % (oc, ",".join(ch)), "the operation failed (%s) but the store changed" % first_error(res["err"]))
        return
    if failed and not exp["error_allowed"]:
        if "not found" in res["err"].lower():
            P("entity-in-store-not-found op=%s msg=%s" % (oc, first_error(res["err"])), "every entity the operation reads is in the store, yet the run failed:\n%s" % res["err"][:400])
        else:
            # numerical failure (e.g. reacting the empty solution a SOLUTION_MIX of missing solutions leaves): not judged (R2)
            diags.append("not completed (%s): %s" % (first_error(res["err"])[:40], name))
        return
    # ---- key set
    if exp["keys"] is not None and set(after) != exp["keys"]:
        extra = sorted(set(after) - exp["keys"])
        missing = sorted(exp["keys"] - set(after))
        P("keys op=%s extra=%s missing=%s" % (oc, ",".join(sorted({k[0] for k in extra})), ",".join(sorted({k[0] for k in missing}))),
          "key set after the operation differs from the reference map: unexpected %s, missing %s" % (extra, missing))
    # ---- header ranges: every entry is stored under exactly its own number
    for k in sorted(after):
        if meta_a[k][0] != k[1] and (k not in before or meta_b[k][0] == k[1]):
            P("header-range op=%s kind=%s" % (oc, k[0]), "entry %s is dumped with the number range %d-%d" % (k, k[1], meta_a[k][0]))
    # ---- untouched entries
    for k in sorted(exp["same"]):
        if k in after and after[k] != before[k]:
            if k[0] == "surface" and ("-rate_name" in before[k] or "-phase_name" in before[k]):
                # sites tied to a reactant: every simulation with a SURFACE / KINETICS / EQUILIBRIUM_PHASES keyword re-synchronises
                # them with the reactant's moles, which rewrites the stored sums (species sums, converged to the solver
                # tolerance) to the exact product; the content is the same when it agrees to RTOL_RELATED
                d = S.numeric_diff(before[k], after[k], RTOL_RELATED, 1e-30)
                if d is None:
                    continue
                P("untouched-entry-changed op=%s entry=%s tied-to-a-reactant" % (oc, k[0]), "entry %s (sites tied to a reactant) is not named by the operation but its content changed beyond %g relative: %s" % (k, RTOL_RELATED, d))
                continue
            P("untouched-entry-changed op=%s entry=%s" % (oc, k[0]), "entry %s is not named by the operation but its content changed: %s" % (k, S.numeric_diff(before[k], after[k], 0)))
    # ---- copies
    for k, src in sorted(exp["equal_to"].items()):
        if k in after and after[k] != before[src]:
            P("copy-differs op=%s kind=%s" % (oc, k[0]), "entry %s is not content-identical to its source %s: %s" % (k, src, S.numeric_diff(before[src], after[k], 0)))
    # ---- definitions
    for k, (kind, var) in sorted(exp["define"].items()):
        if k not in after:
            continue
        # an initial-solution calculation starts from estimates the previous calculations left behind: its result is
        # reproducible to the convergence tolerance only; every other kind is stored as read (bitwise)
        dd = S.numeric_diff(canonical_content(kind, var), after[k], RTOL_DEF, ATOL_DEF) if kind == "solution" else S.numeric_diff(canonical_content(kind, var), after[k], 0)
        if dd:
            P("definition-content op=%s" % oc, "entry %s differs from the content of its definition (%s) in a fresh instance: %s" % (k, var, dd))
    # ---- ranges hold identical entries
    for g in exp["groups"]:
        g = [k for k in g if k in after]
        for k in g[1:]:
            if after[k] != after[g[0]]:
                P("range-entries-differ op=%s kind=%s" % (oc, k[0]), "entries %s and %s written by one operation differ: %s" % (g[0], k, S.numeric_diff(after[g[0]], after[k], 0)))
    # ---- *_MODIFY
    for k, (path, value) in sorted(exp["modified"].items()):
        if k not in after:
            continue
        pb, pa = S.body_paths(before[k]), S.body_paths(after[k])
        tpath = tuple(path)
        # naming a component the entry does not have adds it (with default values for its other quantities)
        newc = [tpath[:i + 1] for i in range(len(tpath) - 1) if tpath[:i + 1] not in pb]
        for q in sorted(set(pb) | set(pa)):
            if q == tpath or S.modify_ignored(k[0], tpath, q) or any(q[:len(c)] == c for c in newc):
                continue
            if newc and len(q) == 1:
                continue        # entity-level work-space values (pr_in, total_moles, ...) follow the component list
            if pb.get(q) != pa.get(q):
                P("modify-side-effect kind=%s changed=%s" % (k[0], _generic(q)), "%s_MODIFY of %s also changed %s: %s -> %s" % (S.KEYWORD[k[0]], "/".join(tpath), "/".join(q), pb.get(q), pa.get(q)))
                break
        got, want = pa.get(tpath), value.split()
        ok = got is not None and len(got) == len(want) and all(
            (a == b) if _f([b]) is None else (_f([a]) == _f([b])) for a, b in zip(got, want))
        if not ok:
            P("modify-not-applied kind=%s quantity=%s" % (k[0], _generic(tpath)), "after %s_MODIFY the quantity %s is %s, expected %s" % (S.KEYWORD[k[0]], "/".join(tpath), pa.get(tpath), value))
    if op["op"] == "modify" and not exp["modified"]:
        if "ignoring modify data" not in res["warn"] and "not found" not in res["warn"].lower():
            diags.append("modify of a missing entity produced no warning: %s" % name)
    # ---- *_MIX
    for k, parts in sorted(exp["mixed"].items()):
        if k not in after:
            continue
        pa = S.body_paths(after[k])
        srcs = [(S.body_paths(before[s]), f) for s, f in parts if s in before]
        ext = EXTENSIVE[k[0]]
        names = set(q for q in pa if ext(q))
        for ps, f in srcs:
            names |= set(q for q in ps if ext(q))
        for q in sorted(names):
            want = sum(f * (_f(ps.get(q)) or 0.0) for ps, f in srcs)
            got = _f(pa.get(q)) or 0.0
            scale = sum(abs(f * (_f(ps.get(q)) or 0.0)) for ps, f in srcs)
            if abs(got - want) > RTOL_MIX * max(scale, abs(got)):
                P("mix-sum kind=%s quantity=%s" % (k[0], _generic(q)), "%s: %s of the mixture is %r, sum of fraction x source = %r (sources %s)" % (
                    S.MIXKEY[k[0]], "/".join(q), got, want, [(s, f) for s, f in parts]))
                break
    # ---- SAVE
    if exp["saved"]:
        rows = res["sel"].get(1, [])
        if not rows:
            raise RuntimeError("no USER_PUNCH row in a reacting simulation: %s" % name)
        row = rows[-1]
        for k in sorted(exp["saved"]):
            if k not in after:
                continue
            pa = S.body_paths(after[k])
            for h, (kind, path) in READOUT.items():
                if kind != k[0] or path not in pa:
                    continue
                got, want = _f(pa[path]), row.get(h)
                if got is None or not isinstance(want, (int, float)):
                    continue
                if not readout_ok(kind, got, float(want)):
                    P("saved-differs-from-calculated kind=%s quantity=%s" % (k[0], _generic(path)), "SAVE stored %s = %r under %s but the simulation calculated %r" % ("/".join(path), got, k, want))
        check_inventory(op, before, after, P)
    # ---- entries that a reaction may update in place
    for k in exp["may_change"]:
        if k in after and k in before and after[k] != before[k]:
            pb, pa = S.body_paths(before[k]), S.body_paths(after[k])
            row = (res["sel"].get(1) or [{}])[-1]
            for h, (kind, path) in READOUT.items():
                if kind == k[0] and path in pa and isinstance(row.get(h), (int, float)):
                    if not readout_ok(kind, _f(pa[path]), float(row[h])):
                        P("saved-differs-from-calculated kind=%s quantity=%s" % (k[0], _generic(path)), "kinetics entry %s holds %s = %r, calculated %r" % (k, "/".join(path), _f(pa[path]), row[h]))
    check_components(after, comps, oc, P)


def check_inventory(op, before, after, P):
    """USE reads the current content: elements in (solution or mixture + used reactants + REACTION additions) before ==
    elements in what the operation saved (+ the kinetics entry it updated)."""
    db = dbfacts()["db"]
    sol = tuple(op["sol"])
    uses = [tuple(u) for u in op["uses"]]
    saves = [(k, S.span(spec)[0]) for k, spec in op["saves"]]
    src_keys = [u for u in uses if u[0] in S.SAVEABLE or u[0] == "kinetics"]
    inv_b = {}
    if sol[0] == "mix":
        fr = S.mix_fractions(before[sol])
        bl = blocks_of(before, [("solution", n) for n in fr])
        if any(("SOLUTION_RAW", n) not in bl for n in fr):
            return
        for n, f in fr.items():
            for e, v in raw.inventory(bl, db, n).items():
                inv_b[e] = inv_b.get(e, 0.0) + f * v
    else:
        for e, v in raw.inventory(blocks_of(before, [sol]), db, sol[1]).items():
            inv_b[e] = inv_b.get(e, 0.0) + v
    for k in src_keys:
        for e, v in raw.inventory(blocks_of(before, [k]), db, k[1]).items():
            inv_b[e] = inv_b.get(e, 0.0) + v
    for k in uses:
        if k[0] == "reaction":
            for e, v in reaction_addition(before[k]).items():
                inv_b[e] = inv_b.get(e, 0.0) + v
    inv_a = {}
    for k in saves + [u for u in uses if u[0] == "kinetics"]:
        if k in after:
            for e, v in raw.inventory(blocks_of(after, [k]), db, k[1]).items():
                inv_a[e] = inv_a.get(e, 0.0) + v
    for e in sorted(set(inv_a) | set(inv_b)):
        if e == "charge":
            continue
        a, b = inv_a.get(e, 0.0), inv_b.get(e, 0.0)
        if abs(a - b) > RTOL_INVENTORY * max(abs(a), abs(b)) + 1e-12:
            P("use-did-not-read-current-content element-inventory", "element %s: %r mol in the entities the operation USEs (current content of the store), %r mol in what it SAVEd" % (e, b, a))
            break


def check_components(store, comps, oc, P):
    need = {}
    for k, body in store.items():
        for e in elements_of(k[0], body):
            need.setdefault(e, set()).add(k[0])
    missing = sorted(set(need) - set(comps))
    if missing:
        src = sorted(set.union(*[need[e] for e in missing]))
        P("component-list-misses-element held-by=%s" % ",".join(src), "GetComponent list %s lacks %s, present in defined reactants of kind %s (after %s)" % (comps, missing, src, oc))


# ------------------------------------------------------------------------------------------------ stepping
def apply_plain(live, op):
    res = live.run(S.op_text(op))
    return res


def equivalent_store(live, store, seq, stop_after=None):
    """Inside a fork: apply the single operations of `seq` one simulation each; returns (observed store, store after
    the first `stop_after` operations, number of failed runs)."""
    mid = None
    cur = dict(store)
    failed = 0
    for i, o in enumerate(seq):
        if stop_after is not None and i == stop_after:
            mid = live.observe()[0]
        for so in expand_op(o, cur):
            if live.run(S.op_text(so))["rc"] != 0:
                failed += 1
        try:
            cur = live.observe()[0]
        except Unobservable:
            return cur, cur, failed + 1
    if stop_after is not None and stop_after >= len(seq):
        mid = cur if seq else live.observe()[0]
    return cur, mid, failed


def expand_op(o, store):
    """run_cells -> the spelled-out USE/SAVE operations, cell by cell in ascending order (evaluated on the model)."""
    if o["op"] != "run_cells":
        return [o]
    out = []
    st = set(store)
    for n in S.numbers(o["list"]):
        if n < 0:
            continue
        if S.solution_only(st, n):
            # no reactant: USE/SAVE alone is no calculation; the single-cell RUN_CELLS stands for itself
            out.append(RC(str(n)))
            continue
        r = S.spelled_out(st, n)
        if r is not None:
            out.append(r)
            for k, spec in r["saves"]:
                st.add((k, n))
    return out


def strip_kinetics_workspace(key, body):
    if key[0] != "kinetics":
        return body
    lines = body.split("\n")
    for i, l in enumerate(lines):
        if l.startswith("  -totals"):
            return "\n".join(lines[:i + 1])
    return body


def compare_stores(a, b, oc, what, P, rtol):
    if set(a) != set(b):
        P("equivalence-keys op=%s" % oc, "%s: key sets differ: only in the single-simulation run %s, only in the spelled-out run %s" % (
            what, sorted(set(a) - set(b)), sorted(set(b) - set(a))))
        return
    for k in sorted(a):
        dd = S.numeric_diff(a[k], b[k], rtol, ATOL_EQUIV)
        if dd:
            P("equivalence-content op=%s kind=%s" % (oc, k[0]), "%s: entry %s differs: %s" % (what, k, dd))
            break


def step(live, op, store, meta, problems, diags):
    """Apply `op` to the live instance (state `store`), judge the transition, return (new store, new meta, comps, rc)."""
    o = op["op"]
    eq_final = eq_mid = None
    eq_failed = 0
    if o in ("run_cells", "combo"):
        live.d.fork()
        try:
            if o == "run_cells":
                eq_final, _, eq_failed = equivalent_store(live, store, [op])
            else:
                eq_final, eq_mid, eq_failed = equivalent_store(live, store, op["pre"] + op["post"], stop_after=len(op["pre"]))
        finally:
            live.d.endfork()
    res = apply_plain(live, op)
    in_run_dump = live.dump_string() if o == "combo" else None
    after, meta_a, comps = live.observe()
    exp = S.model_apply(store, op)
    if res["rc"] != 0:
        # a failed simulation must not leave work for later ones: observing a second time changes nothing
        after2, meta_a2, comps2 = live.observe()
        if after2 != after:
            ch = sorted({k[0] for k in set(after2) ^ set(after)} | {k[0] for k in after2 if k in after and after2[k] != after[k]})
            what = op["name"] if o == "failing" else "actions"
            problems.append(("failed-simulation-leaves-%s-armed" % what, "after the failed simulation two successive observations (simulations holding nothing but DUMP -all) "
                             "show different stores: entries of kinds %s changed\n  operation: %s" % (",".join(ch), S.op_name(op))))
            if o == "failing":
                exp = dict(exp, must_fail=False, keys=None)      # already reported under the same fingerprint
                after, meta_a, comps = after2, meta_a2, comps2
                return after, meta_a, comps, res["rc"]
            after, meta_a, comps = after2, meta_a2, comps2
    if o in ("run_cells", "combo"):
        oc = opclass(op)
        name = S.op_name(op)

        def P(fp, what):
            problems.append((fp, "%s\n  operation: %s" % (what, name)))
        if (res["rc"] != 0) != (eq_failed != 0):
            P("equivalence-error-mismatch op=%s msg=%s" % (oc, first_error(res["err"])), "the single-simulation run %s while the equivalent sequence of single operations %s:\n%s" % (
                "failed" if res["rc"] else "completed", "had %d failing runs" % eq_failed if eq_failed else "completed", res["err"][:400]))
        elif res["rc"] == 0:
            compare_stores(after, eq_final, oc, "store after the operation vs after the equivalent sequence of single operations", P, RTOL_EQUIV)
            if o == "combo":
                # the spelled-out side is observed after a component listing, which rewrites the -totals work space of
                # KINETICS entries; the DUMP inside the simulation is written before any listing: compare without it
                mid, _, _ = S.split(in_run_dump)
                mid = {k: strip_kinetics_workspace(k, v) for k, v in mid.items()}
                eq_mid = {k: strip_kinetics_workspace(k, v) for k, v in eq_mid.items()}
                compare_stores(mid, eq_mid, oc, "DUMP inside the simulation vs the state after the operations documented to precede DUMP", P, RTOL_EQUIV)
            if o == "run_cells":
                cells = set(n for n in S.numbers(op["list"]) if n >= 0)
                for k in sorted(store):
                    if k[1] not in cells and after.get(k) != store[k]:
                        P("untouched-entry-changed op=run_cells entry=%s" % k[0], "entry %s is not in a listed cell but %s" % (k, "vanished" if k not in after else "its content changed"))
                        break
                extra = sorted(k for k in after if k not in store and not (k[0] == "solution" and k[1] in cells and ("mix", k[1]) in store))
                gone = sorted(k for k in store if k not in after)
                if extra or gone:
                    P("keys op=run_cells extra=%s missing=%s" % (",".join(sorted({k[0] for k in extra})), ",".join(sorted({k[0] for k in gone}))),
                      "RUN_CELLS created %s / removed %s" % (extra, gone))
                rows = res["sel"].get(1, [])
                for n in S.numbers(op["list"]):
                    if n < 0 or S.spelled_out(set(store), n) is None:
                        continue
                    mine = [r for r in rows if r.get("cell") == n]
                    if not mine:
                        continue
                    row = mine[-1]
                    for h, (kind, path) in READOUT.items():
                        k = (kind, n)
                        if k in after and isinstance(row.get(h), (int, float)):
                            pa = S.body_paths(after[k])
                            if path in pa and _f(pa[path]) is not None and not readout_ok(kind, _f(pa[path]), float(row[h])):
                                P("saved-differs-from-calculated kind=%s quantity=%s" % (kind, _generic(path)), "RUN_CELLS stored %s = %r under %s but calculated %r" % ("/".join(path), _f(pa[path]), k, row[h]))
            check_components(after, comps, oc, P)
    else:
        judge(op, store, meta, after, meta_a, comps, res, exp, problems, diags)
    return after, meta_a, comps, res["rc"]


def unobservable_problem(op, e):
    if "RUN_CELLS" in S.op_text(op):
        return ("failed-RUN_CELLS-stays-armed",
                "the simulation holding RUN_CELLS failed; RUN_CELLS is then executed again by every later simulation, which fails in the same way even "
                "if it holds nothing but DUMP -all: %s\n  operation: %s" % (str(e).replace("\n", " | ")[:300], S.op_name(op)))
    return ("instance-unusable-after-failed-operation op=%s msg=%s" % (opclass(op), first_error(str(e))),
            "after the operation every further simulation fails, even one that holds nothing but DUMP -all: %s\n  operation: %s" % (
                str(e).replace("\n", " | ")[:300], S.op_name(op)))


# ------------------------------------------------------------------------------------------------ negative target numbers
def _guarded_script(lines, cpu_s=2, mem_mb=400, wall_s=60):
    """Run a driver script in a process of its own with a CPU and an address-space limit (an operation that does not
    return must not take the machine down).  Returns (list of decoded replies, return code)."""
    import resource
    import shutil
    import subprocess
    import tempfile
    from .. import drv
    exe = drv.exe("rel")
    os.makedirs(drv.SCRATCH_ROOT, exist_ok=True)
    d = tempfile.mkdtemp(prefix="c14neg", dir=drv.SCRATCH_ROOT)
    try:
        f = os.path.join(d, "script.txt")
        with open(f, "w", encoding="latin-1") as fh:
            fh.write("\n".join(lines) + "\n")

        def lim():
            resource.setrlimit(resource.RLIMIT_CPU, (cpu_s, cpu_s + 1))
            resource.setrlimit(resource.RLIMIT_AS, (mem_mb << 20, mem_mb << 20))
        try:
            p = subprocess.run([exe, "--dir", os.path.join(d, "w"), "--script", f], stdout=subprocess.PIPE, stderr=subprocess.DEVNULL,
                               preexec_fn=lim, timeout=wall_s)
            out, rc = p.stdout, p.returncode
        except subprocess.TimeoutExpired as e:
            out, rc = e.stdout or b"", "timeout"
        reps = []
        for l in out.decode("latin-1").splitlines():
            try:
                reps.append(json.loads(l))
            except ValueError:
                reps.append({"garbled": l[:80]})
        return reps, rc
    finally:
        shutil.rmtree(d, ignore_errors=True)


def run_negative(case):
    """COPY <kind> 1 -1: a negative target number.  Entries with negative numbers are internal and invisible, so the
    operation must return and leave the visible store as it was."""
    from .. import drv
    kind = case["neg"]
    kinds = S.KIND_NAMES if kind == "cell" else [kind]
    pre = [drv.cmdline("new", "c"), drv.cmdline("call", "s0", "c", "LoadDatabase", DBPATH), drv.cmdline("call", "s0", "c", "SetDumpStringOn", 1),
           drv.cmdline("call", "s0", "c", "SetDumpFileOn", 0)]
    pre.append(drv.cmdline("call", "s0", "c", "RunString", S.op_text(D("solution", "A", "1"))))
    for k in kinds:
        if k != "solution":
            pre.append(drv.cmdline("call", "s0", "c", "RunString", S.op_text(D(k, "A", "1"))))
    dump = [drv.cmdline("call", "s0", "c", "RunString", "DUMP\n -all\nEND\n"), drv.cmdline("call", "s0", "c", "GetDumpString")]
    copy = drv.cmdline("call", "s0", "c", "RunString", "COPY %s 1 -1\nEND\n" % kind)
    lines = pre + [copy, drv.cmdline("ping")]
    reps, rc = _guarded_script(lines)
    problems = []
    name = "COPY %s 1 -1" % kind
    narrow = {"neg": kind}
    returned = len(reps) == len(lines) and reps[-2].get("r") == 0 and reps[-1].get("pong") == 1
    outcome = "returned"
    if not returned:
        got = reps[len(pre)] if len(reps) > len(pre) else None
        outcome = "no reply, process ended with %s" % rc if got is None else "reply %s" % json.dumps(got)[:80]
        problems.append(("COPY-to-negative-number-does-not-return kind=%s" % kind,
                         "`%s` did not return normally within 2 s of CPU time and 400 MB of memory (%s)\n  operation: %s" % (name, outcome, name), narrow))
    else:
        lines = pre + dump + [copy] + dump
        reps, rc = _guarded_script(lines)
        if len(reps) != len(lines):
            raise RuntimeError("negative-number probe: second pass incomplete (%s)" % rc)
        before, after = S.split(reps[len(pre) + 1]["r"])[0], S.split(reps[-1]["r"])[0]
        if not before:
            raise RuntimeError("negative-number probe: empty store")
        if before != after:
            ch = sorted({k[0] for k in set(after) ^ set(before)} | {k[0] for k in after if k in before and after[k] != before[k]})
            problems.append(("COPY-to-negative-number-changes-visible-store kind=%s" % kind, "`%s` changed visible entries of kinds %s\n  operation: %s" % (name, ch, name), narrow))
    return {"case": case, "problems": problems, "ops": 1, "key": "neg:%s:%s" % (kind, "returned" if returned else "not-returned"), "children": [], "failed": 0 if returned else 1,
            "diagnostics": [], "nkeys": 0, "rcs": [0 if returned else 1], "comps": [], "script": "\n".join(lines) + "\n"}


def run_case(case):
    """case = {"init": name, "hist": [op...], "expand": alphabet name or None}.  Replays init + hist on a fresh
    instance judging every transition of hist; with "expand" it then tries every operation of the alphabet in a fork."""
    if "neg" in case:
        return run_negative(case)
    canonical_content("solution", "A")       # before the live instance exists: it uses the same driver slot
    live = Live()
    for op in INITS[case["init"]]:
        r = live.run(S.op_text(op))
        if r["rc"] != 0:
            raise RuntimeError("initial state %s: %s failed: %s" % (case["init"], S.op_name(op), r["err"][:300]))
    store, meta, comps = live.observe()
    want = set()
    for op in INITS[case["init"]]:
        want |= set(S.model_apply({k: "" for k in want}, op)["keys"])
    if set(store) != want:
        raise RuntimeError("initial state %s: store %s != %s" % (case["init"], sorted(store), sorted(want)))
    problems, diags = [], []
    out_problems = []
    rcs = []
    hist = case["hist"]
    for i, op in enumerate(hist):
        pr = []
        try:
            store, meta, comps, rc = step(live, op, store, meta, pr, diags)
        except Unobservable as e:
            pr.append(unobservable_problem(op, e))
            out_problems.append(pr[-1] + ({"init": case["init"], "hist": hist[:i + 1], "expand": None},))
            return {"case": case, "problems": out_problems, "ops": i + 1, "key": "UNOBSERVABLE", "children": [], "failed": 1,
                    "diagnostics": [], "nkeys": 0, "rcs": rcs, "comps": [], "script": live.d.script()}
        rcs.append(rc)
        if i == len(hist) - 1 or case.get("judge_all"):
            for fp, what in pr:
                out_problems.append((fp, what, {"init": case["init"], "hist": hist[:i + 1], "expand": None}))
    children = []
    n_ops = 0 if case.get("expand") else len(hist)
    failed = 0
    if case.get("expand"):
        ops = ALPHABETS[case["expand"]]
        for op in ops:
            pr = []
            live.d.fork()
            try:
                st2, meta2, comps2, rc = step(live, op, store, meta, pr, diags)
                key = state_key(st2, comps2)
            except Unobservable as e:
                pr.append(unobservable_problem(op, e))
                st2, rc, key = {}, 1, "UNOBSERVABLE"
            except RuntimeError as e:
                raise RuntimeError("%s\n  in history %s + %s" % (e, [S.op_name(o) for o in hist], S.op_name(op)))
            finally:
                live.d.endfork()
            n_ops += 1
            failed += 1 if rc != 0 else 0
            children.append((key, len(st2), rc))
            for fp, what in pr:
                out_problems.append((fp, what, {"init": case["init"], "hist": hist + [op], "expand": None}))
    seen, uniq = set(), []
    for p in out_problems:
        if p[0] not in seen:
            seen.add(p[0])
            uniq.append(p)
    return {"case": case, "problems": uniq, "ops": n_ops, "key": state_key(store, comps), "children": children,
            "failed": failed, "diagnostics": sorted(set(diags))[:5], "nkeys": len(store), "rcs": rcs, "comps": comps,
            "script": live.d.script() if uniq and not case.get("expand") else ""}


def _untouched_by(op, keys, watched):
    e = S.model_apply({k: "" for k in keys}, op)
    return e["keys"] is not None and not e["must_fail"] and all(k in e["same"] for k in watched)


ALPHABETS = {"full": alphabet()}
_ks_keys = [("solution", 1), ("kinetics", 1), ("surface", 1)]
ALPHABETS["ks"] = [o for o in alphabet() if _untouched_by(o, _ks_keys, KS_LINKED)]
for _i, _g in enumerate(KIND_GROUPS):
    ALPHABETS["g%d" % _i] = alphabet(_g)


# ------------------------------------------------------------------------------------------------ exploration
_REPORTED = set()


def explore_level(cases, ev, findings, pool, deadline, samples):
    """Run the cases, confirm every distinct fingerprint by two fresh replays of its (narrow) case.  Returns
    (completed, results)."""
    results = []
    cand = {}
    complete = True
    for res in pool.map(run_case, cases, 1, ordered=True):
        results.append({k: res[k] for k in ("case", "key", "children", "nkeys", "rcs", "comps")})
        ev.traces += len(res["children"]) if res["case"].get("expand") else 1
        ev.transitions += res["ops"]
        ev.state(res["key"])
        for key, nk, rc in res["children"]:
            ev.state(key)
            ev.outcome(key)
        ev.not_completed += res["failed"]
        for dg in res["diagnostics"]:
            ev.diag(dg)
        for fp, what, c in res["problems"]:
            cand.setdefault(fp, (c, what))
        if len(samples) < 6 and res["case"].get("hist"):
            samples.append({"init": res["case"]["init"], "history": [S.op_name(o) for o in res["case"]["hist"]], "rc": res["rcs"],
                            "entries_after": res["nkeys"], "components": res["comps"],
                            "successors_tried": len(res["children"]), "distinct_successor_states": len({c[0] for c in res["children"]})})
        if deadline is not None and deadline.passed():
            complete = False
            break
    for fp in sorted(cand):
        if fp in _REPORTED:
            continue
        _REPORTED.add(fp)
        c, what = cand[fp]
        ok = list(pool.map(core._confirm, [(run_case, c, fp)]))[0]
        if ok:
            r = run_case(c)
            findings.report(fp, what, core.case_text(c, r.get("script", "")))
        else:
            ev.diag("unconfirmed candidate (did not reproduce twice in fresh processes): %s" % fp)
    core.close_drvs()
    return complete, results


def bfs(inits, alpha, depth, ev, findings, pool, deadline, samples, label):
    """Breadth-first: level k holds one representative history per distinct state reached by k operations; every
    representative is expanded with the whole alphabet.  Returns the per-level statistics."""
    stats = []
    ops = ALPHABETS[alpha]
    frontier = [{"init": i, "hist": [], "expand": alpha} for i in inits]
    seen = set()
    complete = True
    for level in range(1, depth + 1):
        done, results = explore_level(frontier, ev, findings, pool, deadline, samples)
        n_trans = sum(len(r["children"]) for r in results)
        new = []
        for r in results:
            seen.add((r["case"]["init"], r["key"]))
        for r in results:
            for op, (key, nk, rc) in zip(ops, r["children"]):
                if (r["case"]["init"], key) in seen:
                    continue
                seen.add((r["case"]["init"], key))
                new.append({"init": r["case"]["init"], "hist": r["case"]["hist"] + [op], "expand": alpha})
        stats.append({"depth": level, "states_expanded": len(results), "transitions": n_trans, "new_states": len(new)})
        ev.bound("%s: all histories of %d operation(s) over %d operations from %s (%d states expanded, %d transitions, %d new states)" % (
            label, level, len(ops), "+".join(inits), len(results), n_trans, len(new)), done, alphabet=alpha, depth=level)
        if not done:
            complete = False
            break
        frontier = new
    return stats, complete


def run(tier):
    ev = core.Evidence(PROP, tier)
    findings = core.Findings(PROP)
    ev.assumptions = [
        "database/phreeqc.dat loads without error",
        "the store is observed through DUMP -all (entities with negative numbers are internal and never dumped)",
        "content of a definition = what the same definition leaves in a freshly loaded instance (differential)",
        "RAW identifiers taken from the dump text: totals, total_h, total_o, cb, mass_water, total_alkalinity, moles, m, "
        "namecoef, reactant_list, steps, units, equal_increments, temp, pH, pe, thickness, exchange_gammas",
        "RUN_CELLS uses MIX n in preference to SOLUTION n when both exist (Phreeqc set_advection/run_as_cells convention)",
        "component list = primary aqueous master elements of SOLUTION_MASTER_SPECIES except H, O, E, Alkalinity (exchange and surface masters are not components)",
        "tolerances not given by the statement: stored value vs BASIC read-out 1e-12 (one rounding), *_MIX sums 1e-12, RUN_CELLS vs spelled-out 1e-12, "
        "element inventory 1e-6 (coarse: detects a wrong source, fine conservation belongs to C02)",
    ]
    canonical_content("solution", "A")       # computed before the workers are forked: they inherit the cache
    core.close_drvs()
    pool = core.Pool()
    samples = []
    dl = core.Deadline(170 if tier == "quick" else 1700)
    neg = [{"neg": k} for k in (["solution", "kinetics", "reaction_pressure", "cell"] if tier == "quick" else S.KIND_NAMES + ["cell"])]
    done, res = explore_level(neg, ev, findings, pool, dl, samples)
    ev.bound("negative target number: COPY <kind> 1 -1 for %d kinds, run under a CPU and memory limit" % len(neg), done, cases=len(neg),
             returned=sum(1 for r in res if r["key"].endswith(":returned")))
    st, ok = bfs(["E", "P12", "R23"], "full", 2, ev, findings, pool, dl, samples, "full alphabet")
    ev.extra["levels_full"] = st
    # depth 1 in both tiers: a second operation could act on copies / mixtures of the linked pair made by the first one (a surface
    # copied to number 3 is then tied to a KINETICS 3 that may not exist), which is the engine's documented coupling, not the store's
    st, ok = bfs(["KS"], "ks", 1, ev, findings, pool, dl, samples, "operations that name neither entry, from the state with a saved surface tied to a kinetic reactant")
    ev.extra["levels_ks"] = st
    if tier == "thorough" and ok:
        for i, g in enumerate(KIND_GROUPS):
            st, ok = bfs(["E", "P12", "R23"], "g%d" % i, 3, ev, findings, pool, dl, samples, "kinds %s" % "+".join(g))
            ev.extra["levels_g%d" % i] = st
            if not ok:
                break
    for s in samples:
        ev.sample(s)
    ev.extra["alphabet_sizes"] = {k: len(v) for k, v in ALPHABETS.items()}
    ev.extra["alphabet"] = [S.op_name(o) for o in ALPHABETS["full"]]
    ev.extra["sample_inputs"] = {S.op_name(o): S.op_text(o) for o in (ALPHABETS["full"][1], C("cell", 1, "2-3"), X("cells", "1 3"), M("solution", 2, 1),
                                                                      MX("exchange", "3", [(1, "0.25"), (2, "0.5")]), RC("1-3"), make_combos()[0])}
    ev.extra["calibration_notes"] = [
        "GetComponentCount/GetComponent rewrite the -totals work space of stored KINETICS entries (list_components calls calc_dummy_kinetic_reaction_tally on the entity itself): every dump is taken after a component listing",
        "SURFACE_MODIFY (cxxSurface::read_raw) clears new_def / sets tidied of an entity that has not been used yet; no consequence could be demonstrated, the flags new_def/tidied are not judged",
        "SOLUTION_MODIFY -totals rescales the log-activity estimate of the same element; REACTION_TEMPERATURE prints count_temps from the list length; EQUILIBRIUM_PHASES rebuilds eltList: not judged",
        "*_MIX with sources that do not exist stores the sum over the existing ones (an empty entity if none); SOLUTION_MIX additionally reports an error and leaves a solution with 0 kg water",
        "a MIX definition naming a missing solution is an input error but the MIX entry is stored",
        "RUN_CELLS on a cell that holds only a solution re-speciates and stores it, USE solution/SAVE solution alone is no calculation: such cells are compared with a single-cell RUN_CELLS",
        "an initial-solution calculation depends on estimates left by earlier calculations at the 1e-8 level of -cb: SOLUTION definitions are compared with rtol 1e-6 / atol 1e-9, everything else bitwise",
    ]
    ev.extra["lattice_points"] = ev.traces
    ev.extra["completed_runs"] = ev.transitions - ev.not_completed
    if ev.not_completed > 0.5 * max(1, ev.transitions):
        raise RuntimeError("completion floor (R2): %d of %d operations did not complete" % (ev.not_completed, ev.transitions))
    if len(ev.outcomes) < 50:
        raise RuntimeError("vacuity guard: only %d distinct successor states" % len(ev.outcomes))
    pool.close()
    core.close_drvs()
    return core.finish(ev, findings)


def replay(path):
    return core.replay_main(PROP, path, run_case)
