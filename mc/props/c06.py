"""C06  Deterministic results; instances are isolated and usable from parallel threads.

Three parts, all on the real library built from the repository's working tree:

S  schedule exploration (the deciding step for the concurrency clause).  native/sched/vsched runs 2-3 real threads,
   each executing a *body* (create / load / run / read / destroy on its own instances, bodies.cpp) under a controlled
   scheduler, and enumerates depth-first EVERY schedule with at most b preemptions (b iterated 0,1,2..; switches at
   blocking and termination are free); one forked process per schedule.  The library is compiled with the compiler's
   ThreadSanitizer instrumentation but linked against vsched's own runtime, so every load/store of the library is seen;
   scheduling points are lock operations on every mutex in static storage, thread start/end, function-local-static
   guards and writes to static storage another thread has touched.  Oracle on every schedule: happens-before data
   races on static storage (vector clocks) plus the lockset discipline (a static location written after it became
   shared must be protected by a common lock), deadlock, pairwise distinct instance ids, empty registry at the end,
   every call reached its own object, and each thread's complete observation (all strings, tables at %.17g, return
   codes; elapsed-time banner masked) is bitwise the observation of the same body run alone.
H  call-level interleavings without threads (the determinism clause): for every ordered pair of inputs, every
   interleaving of the two call sequences [create, load, run, read+destroy] on two instances of one process; each
   instance's observation must be bitwise equal to the observation of the same input on a lone fresh instance in a
   fresh process, and to a repetition.
T  companion, not deciding: the same bodies free-running (4 threads x repetitions) under the real ThreadSanitizer
   runtime, so that races confined to heap or libc stay visible; a report whose stack touches the repository's
   sources is a violation.
"""
import json
import os
import re
import shutil
import subprocess
import sys
import tempfile
import time
import fcntl
import itertools

from .. import core, build, drv

PROP = "C06"
DATA = os.path.join(core.ROOT, "data", "c06")
MINI = os.path.join(DATA, "mini.dat")
DBDIR = os.path.join(build.REPO, "database")
SRC = ["native/sched/vsched.cpp", "native/sched/bodies.cpp", "native/sched/bodies.h"]
BODIES = ["reg", "spec", "kin", "basic", "adv", "trn", "trm", "inv", "err", "cpp"]
TRANSPORT_BODIES = {"trn", "trm"}
MODEL_BODIES = ["pitz", "sit", "llnl", "rx"]      # same brine input on mini.dat + PITZER / SIT / LLNL block: the other activity-model code paths; rx: surface (three diffuse-layer options), exchange, gas, solid solution, MIX, COPY, DUMP on mini.dat


# ------------------------------------------------------------------------------------------------ build
def _newer(target, deps):
    if not os.path.exists(target):
        return False
    t = os.path.getmtime(target)
    return all(os.path.getmtime(x) <= t for x in deps)


def build_vsched():
    """vsched = our scheduler/runtime (not instrumented) + bodies + the tsan-instrumented library, non-PIE."""
    lib = build.ensure("tsabi")
    bindir = os.path.join(build.BUILD, "bin%s" % build._tag())
    os.makedirs(bindir, exist_ok=True)
    out = os.path.join(bindir, "vsched")
    srcs = [os.path.join(core.ROOT, s) for s in SRC]
    with open(out + ".lock", "w") as lk:
        fcntl.flock(lk, fcntl.LOCK_EX)
        if not _newer(out, srcs + [lib, os.path.abspath(__file__)]):
            inc = build.include_flags()
            common = ["clang++", "-O1", "-g", "-fno-pie", "-std=c++17", "-D" + build.GUARD] + inc
            o1, o2 = out + ".vsched.o", out + ".bodies.o"
            build._run(common + ["-fno-builtin", "-c", srcs[0], "-o", o1])
            build._run(common + ["-fno-access-control", "-c", srcs[1], "-o", o2])
            tmp = out + ".tmp%d" % os.getpid()
            build._run(["clang++", "-no-pie", "-o", tmp, o1, o2, lib, "-lpthread", "-ldl", "-Wl,-Map=" + out + ".map"])
            os.replace(tmp, out)
    return out


def build_freerun():
    lib = build.ensure("tsan")
    bindir = os.path.join(build.BUILD, "bin%s" % build._tag())
    os.makedirs(bindir, exist_ok=True)
    out = os.path.join(bindir, "freerun-tsan")
    srcs = [os.path.join(core.ROOT, s) for s in ["native/sched/freerun.cpp", "native/sched/bodies.cpp", "native/sched/bodies.h"]]
    with open(out + ".lock", "w") as lk:
        fcntl.flock(lk, fcntl.LOCK_EX)
        if not _newer(out, srcs + [lib, os.path.abspath(__file__)]):
            tmp = out + ".tmp%d" % os.getpid()
            build._run(["clang++", "-O1", "-g", "-fsanitize=thread", "-fno-access-control", "-std=c++17", "-D" + build.GUARD] + build.include_flags()
                       + ["-o", tmp, srcs[0], srcs[1], lib, "-lpthread", "-ldl"])
            os.replace(tmp, out)
    return out


class Symbols:
    """address -> (symbol, object file) for the static storage of the vsched executable."""

    def __init__(self, exe):
        self.syms = []
        out = subprocess.run(["nm", "-C", "-S", "-n", exe], stdout=subprocess.PIPE, text=True).stdout
        for l in out.splitlines():
            p = l.split(None, 3)
            if len(p) == 4 and p[2] in "bBdD":
                self.syms.append((int(p[0], 16), int(p[1], 16), p[3].strip()))
        self.secs = []
        try:
            cur = None
            for l in open(exe + ".map", errors="replace"):
                m = re.match(r"^\s+(\.(?:bss|data|tbss|tdata)[\w.$]*)\s*$", l)
                if m:
                    cur = m.group(1)
                    continue
                m = re.match(r"^\s+(\.(?:bss|data)[\w.$]*)?\s+0x([0-9a-f]+)\s+0x([0-9a-f]+)\s+(\S.*)$", l)
                if m and (m.group(1) or cur):
                    a, n, f = int(m.group(2), 16), int(m.group(3), 16), m.group(4).strip()
                    if n and ("(" in f or f.endswith(".o")):
                        self.secs.append((a, n, f))
                    cur = None
                elif not l.startswith(" "):
                    cur = None
        except OSError:
            pass

    def resolve(self, addr):
        sym = "?"
        for s, z, n in self.syms:
            if s <= addr < s + max(z, 1):
                sym = n
                break
        obj = "?"
        for a, n, f in self.secs:
            if a <= addr < a + n:
                m = re.search(r"\(([^)]+)\)\s*$", f)
                obj = m.group(1) if m else os.path.basename(f)
                break
        return sym, obj


# ------------------------------------------------------------------------------------------------ part S
def vsched_cmd(exe, mode, bodies, scratch, **kw):
    cmd = [exe, mode, "--mini", MINI, "--dbdir", DBDIR, "--bodies", ",".join(bodies), "--scratch", scratch]
    for k, v in kw.items():
        if v is not None:
            cmd += ["--" + k.replace("_", "-"), str(v)]
    return cmd


def explore(exe, bodies, bound, jobs, deadline, scratch):
    p = subprocess.run(vsched_cmd(exe, "explore", bodies, scratch, bound=bound, jobs=jobs, deadline=max(1, int(deadline))),
                       stdout=subprocess.PIPE, stderr=subprocess.PIPE, text=True)
    if p.returncode != 0:
        sys.stderr.write("HARNESS ERROR: vsched explore %s bound %d: rc=%d\n%s\n" % (",".join(bodies), bound, p.returncode, p.stderr[-3000:]))
        raise SystemExit(2)
    return json.loads(p.stdout.strip().splitlines()[-1])


def run_schedule(exe, bodies, devs, scratch, dump=None):
    p = subprocess.run(vsched_cmd(exe, "run", bodies, scratch, devs=devs or None, dump=dump), stdout=subprocess.PIPE, stderr=subprocess.PIPE, text=True)
    if p.returncode != 0:
        sys.stderr.write("HARNESS ERROR: vsched run %s devs %s: rc=%d\n%s\n" % (",".join(bodies), devs, p.returncode, p.stderr[-3000:]))
        raise SystemExit(2)
    res = {"status": None, "races": [], "viols": [], "text": p.stdout}
    for l in p.stdout.splitlines():
        if l.startswith("status "):
            res["status"] = l[7:]
        elif l.startswith("race "):
            f = l.split()
            res["races"].append(int(f[1], 16))
        elif l.startswith("viol "):
            f = l[5:].split("\t")
            res["viols"].append((f[0], f[1]))
    return res


def viol_fp(vtype, detail, bodies):
    names = ",".join(sorted(bodies))
    if vtype == "ids":
        return "ids not unique bodies=%s" % names if "twice" in detail else "create failed bodies=%s" % names
    if vtype == "obs":
        m = re.search(r"body (\w+)", detail)
        return "result differs from sequential run: body=%s in harness=%s" % (m.group(1) if m else "?", names)
    if vtype == "crash":
        return "crash under schedule bodies=%s" % names
    return "%s bodies=%s" % (vtype, names)


def part_s(tier, exe, syms, ev, findings, dl, stats):
    jobs = core.NCPU
    scratch = tempfile.mkdtemp(prefix="vs", dir=drv.SCRATCH_ROOT if os.path.isdir(drv.SCRATCH_ROOT) else None)
    allpairs = list(itertools.combinations_with_replacement(BODIES, 2))
    modelpairs = list(itertools.combinations_with_replacement(MODEL_BODIES, 2)) + [(m, "spec") for m in MODEL_BODIES]
    if tier == "quick":
        b1 = [("reg", "reg"), ("spec", "spec"), ("basic", "basic"), ("inv", "inv"), ("err", "err"), ("cpp", "cpp"), ("kin", "kin"), ("trm", "trm"),
              ("reg", "spec"), ("reg", "cpp"), ("reg", "err"), ("spec", "kin"), ("inv", "err"), ("trm", "spec")]
        plan = [(0, allpairs + modelpairs), (1, b1 + [("pitz", "pitz")]), (1, [("reg", "reg", "reg")]), (2, [("reg", "reg")])]
    else:
        allpairs = list(itertools.combinations_with_replacement(BODIES + MODEL_BODIES, 2))
        plan = [(0, allpairs), (1, allpairs), (1, [("reg", "reg", "reg"), ("reg", "spec", "cpp"), ("spec", "kin", "basic"), ("load", "load")]),
                (2, [("reg", "reg"), ("reg", "reg", "reg"), ("reg", "spec"), ("reg", "cpp"), ("spec", "spec"), ("spec", "cpp"), ("basic", "basic"),
                     ("inv", "inv"), ("err", "err"), ("err", "spec"), ("spec", "kin")]),
                (3, [("reg", "reg")])]
    done = set()
    cand = {}     # fingerprint -> (what, bodies, devs)
    try:
        for bound, harnesses in plan:
            n_done = 0
            sched = 0
            complete = True
            for bodies in harnesses:
                key = (tuple(bodies), bound)
                if key in done:
                    n_done += 1
                    continue
                if dl.passed():
                    complete = False
                    break
                r = explore(exe, bodies, bound, jobs, dl.left(), scratch)
                done.add(key)
                if not r["complete"]:
                    complete = False
                n_done += 1
                sched += r["schedules"]
                stats["schedules"] += r["schedules"]
                stats["points"] += r["schedules"] * r["max_points"]
                stats["max_points"] = max(stats["max_points"], r["max_points"])
                stats["outcomes"] += r["outcomes"]
                stats["per_harness"].append({"bodies": ",".join(bodies), "bound": bound, "schedules": r["schedules"], "points_per_schedule": r["root_points"],
                                             "distinct_outcomes": r["outcomes"], "races": len(r["races"]), "complete": r["complete"]})
                ev.outcome("%s/%d/%d" % (",".join(bodies), bound, r["outcomes"]))
                for a in r["written"]:
                    stats["written"].add(syms.resolve(int(a, 16))[0])
                for d in r["diags"]:
                    stats["diags"].add(re.sub(r"thread=\d+ owner=-?\d+", "", d).strip())
                for rc in r["races"]:
                    sym, obj = syms.resolve(int(rc["addr"], 16))
                    fp = "race on static storage symbol=%s object=%s" % (sym, obj)
                    kind = "lockset (written while shared, no common lock)" if rc["w2"] & 2 else "happens-before (unordered conflicting accesses)"
                    what = "data race on %s (%s): thread %d %s / thread %d %s; detector: %s\nharness bodies=%s schedule deviations=[%s]" % (
                        sym, obj, rc["t1"], "write" if rc["w1"] else "read", rc["t2"], "write" if rc["w2"] & 1 else "read", kind, ",".join(bodies), rc["devs"])
                    cand.setdefault(fp, (what, bodies, rc["devs"], ("race", sym)))
                for v in r["violations"]:
                    fp = viol_fp(v["type"], v["detail"], bodies)
                    what = "%s: %s\nharness bodies=%s schedule deviations=[%s] (preemption bound %d)" % (v["type"], v["detail"], ",".join(bodies), v["devs"], bound)
                    cand.setdefault(fp, (what, bodies, v["devs"], (v["type"], v["detail"])))
            ev.bound("schedules with <= %d preemptions: %d harnesses" % (bound, len(harnesses)), complete and n_done == len(harnesses),
                     preemption_bound=bound, harnesses=len(harnesses), harnesses_completed=n_done, schedules=sched)
            if not complete:
                break
        # R3: replay every candidate twice, alone, before reporting
        for fp in sorted(cand):
            what, bodies, devs, (vtype, detail) = cand[fp]
            ok = 0
            for _ in range(2):
                rr = run_schedule(exe, bodies, devs, scratch)
                if vtype == "race":
                    if any(syms.resolve(a)[0] == detail for a in rr["races"]):
                        ok += 1
                elif any(t == vtype for t, _d in rr["viols"]) or (rr["status"] or "").startswith(vtype):
                    ok += 1
            if ok == 2:
                findings.report(fp, what, "# part=S\n# bodies=%s\n# devs=%s\n" % (",".join(bodies), devs))
            else:
                ev.diag("unconfirmed candidate (did not reproduce in two replays): %s" % fp)
    finally:
        shutil.rmtree(scratch, ignore_errors=True)


# ------------------------------------------------------------------------------------------------ part H
STEPS = ["create", "load", "run", "read"]
H_INPUTS = ["spec", "kin", "basic", "adv", "trn", "trm", "inv", "err", "err2"]
_texts = {}


def text_of(name):
    if name not in _texts:
        _texts[name] = open(os.path.join(DATA, "inputs", name + ".in")).read()
    return _texts[name]


def mask(s):
    if not isinstance(s, str):
        return s
    out = []
    for l in s.split("\n"):
        if "End of Run after" in l or (len(l) >= 3 and set(l) == {"-"}):
            continue
        out.append(l)
    return re.sub(r"\.\d+\.(out|err|log|dmp)", r".N.\1", "\n".join(out))


def h_step(d, slot, name, step):
    t = "s%d" % slot
    if step == "load":
        rc = d.call(t, "c", "LoadDatabaseString", open(MINI).read())
        for s in ("Output", "Error", "Log", "Dump", "SelectedOutput"):
            d.call(t, "c", "Set%sStringOn" % s, 1)
        for s in ("Output", "Error", "Log", "Dump", "SelectedOutput"):
            d.call(t, "c", "Set%sFileOn" % s, 0)
        return ("load", rc)
    if step == "run":
        return ("run", d.call(t, "c", "RunString", text_of(name)))
    if step == "read":
        err = d.call(t, "c", "GetErrorString")
        warn = d.call(t, "c", "GetWarningString")
        o = d.obs(t, "c", "gstcu")
        o.pop("GetId", None)
        return ("read", mask(err), mask(warn), json.dumps(o, sort_keys=True, default=str))
    raise ValueError(step)


def h_canon(obs):
    return core.sha(mask(json.dumps(obs, sort_keys=True, default=str)))


def h_case(case):
    """case: {"a": name, "b": name or None, "order": "0101.." (which instance performs its next step), "fresh": bool}"""
    if case.get("perturb") is not None:
        # glibc fills every block it hands out with this byte (and freed blocks with its complement): a member that init()
        # leaves unset then holds garbage instead of the zeros of a fresh heap page, as it would after another instance
        # was destroyed.  The observation of a fresh instance must not depend on it.
        core.close_drvs()
        drv.Drv.extra_env = {"MALLOC_PERTURB_": str(case["perturb"])}
        try:
            d = core.fresh_drv("rel")
        finally:
            drv.Drv.extra_env = {}
    else:
        d = core.fresh_drv("rel") if case.get("fresh") else core.get_drv("rel")
    d.reset()
    if case.get("shuffle"):
        d.cmd("heapshuffle", str(case["shuffle"]))      # small free lists filled so that the next allocations come at descending addresses
    names = [case["a"]] + ([case["b"]] if case.get("b") else [])
    slots = []
    prog = [0] * len(names)
    obs = [[] for _ in names]
    order = case["order"]
    nops = 0
    for ch in order:
        k = int(ch)
        st = STEPS[prog[k]]
        prog[k] += 1
        if st == "create":
            r = d.new("c")
            slots.append((k, r["slot"]))
            continue
        slot = dict(slots)[k]
        if case.get("shuffle") and st == "run":
            d.cmd("heapshuffle", str(case["shuffle"]))      # again right before the run: the load has used up the first lists
        obs[k].append(h_step(d, slot, names[k], st))
        nops += 1
    keys = [h_canon(o) for o in obs]
    out = {"case": case, "keys": keys, "ops": nops, "script": d.script(), "problems": [], "outcome": "|".join(keys), "states": keys}
    if case.get("perturb") is not None:
        core.close_drvs()          # the perturbed process must not serve the next case
    return out


def interleavings(n):
    """all merges of two sequences of n steps: strings over {0,1} with n of each"""
    for pos in itertools.combinations(range(2 * n), n):
        s = ["1"] * (2 * n)
        for p in pos:
            s[p] = "0"
        yield "".join(s)


def part_h(tier, ev, findings, pool, dl, stats):
    n = len(STEPS)
    names = H_INPUTS
    # baselines: lone fresh instance in a fresh process, twice, and once more in a used process
    base_cases = [{"a": a, "b": None, "order": "0" * n, "fresh": f, "rep": r} for a in names for f, r in ((True, 0), (True, 1), (False, 2))]
    base = {}
    problems = {}
    for res in pool.map(h_case, base_cases, 1, ordered=True):
        ev.traces += 1
        ev.transitions += res["ops"]
        a = res["case"]["a"]
        k = res["keys"][0]
        ev.state(k)
        if a in base and base[a] != k:
            problems.setdefault("sequential result not reproducible: input=%s" % a, ("input %s gives different observations on two fresh instances (fresh process: %s)" % (a, res["case"]["fresh"]), res))
        base.setdefault(a, k)
    ev.bound("lone-instance baselines: %d inputs x {fresh process x2, used process}" % len(names), True, cases=len(base_cases))
    pert_cases = [{"a": a, "b": None, "order": "0" * n, "fresh": True, "perturb": p} for a in names for p in (85, 170)]
    pert_cases += [{"a": a, "b": None, "order": "0" * n, "fresh": True, "perturb": 85, "shuffle": k} for a in names for k in (64, 2000)]
    for res in pool.map(h_case, pert_cases, 1, ordered=True):
        ev.traces += 1
        ev.transitions += res["ops"]
        a = res["case"]["a"]
        ev.state(res["keys"][0])
        if res["keys"][0] != base[a]:
            if res["case"].get("shuffle"):
                problems.setdefault("result of a fresh instance depends on where its memory blocks lie: input=%s" % a,
                                    ("input %s: a lone fresh instance observes something different when the allocator's small free lists were filled "
                                     "beforehand (next blocks at descending addresses, as after other instances were created and destroyed)" % a, res))
                continue
            problems.setdefault("result of a fresh instance depends on the content of newly allocated memory: input=%s" % a,
                                ("input %s: a lone fresh instance observes something different when malloc hands out blocks filled with byte %d "
                                 "instead of fresh zero pages (as after another instance was destroyed): some state is not initialised" % (a, res["case"]["perturb"]), res))
    core.close_drvs()
    ev.bound("heap differential: %d inputs x {newly allocated memory filled with 0x55 / 0xAA (MALLOC_PERTURB_), small free lists pre-filled with 64 / 2000 rounds of blocks before the instance is created and again before its run (next allocations at descending addresses)}" % len(names), True, cases=len(pert_cases))
    pairs = [(a, b) for a in names for b in names] if tier == "thorough" else [(a, b) for i, a in enumerate(names) for b in names[i:]]
    orders = list(interleavings(n))
    cases = [{"a": a, "b": b, "order": o} for (a, b) in pairs for o in orders]
    complete = True
    cnt = 0
    for res in pool.map(h_case, cases, 8, ordered=True):
        cnt += 1
        ev.traces += 1
        ev.transitions += res["ops"]
        c = res["case"]
        for who, k in zip((c["a"], c["b"]), res["keys"]):
            ev.state(k)
            if k != base[who]:
                fp = "result depends on another instance's calls: input=%s other=%s" % (who, c["b"] if who == c["a"] else c["a"])
                problems.setdefault(fp, ("instance running %s observes something different from a lone fresh instance when its calls are interleaved (order %s) with an instance running %s" % (
                    who, c["order"], c["b"] if who == c["a"] else c["a"]), res))
        stats["h_outcomes"].add(res["outcome"])
        if dl.passed():
            complete = False
            break
    ev.bound("call-level interleavings: %d input pairs x %d interleavings of [create,load,run,read] x 2" % (len(pairs), len(orders)), complete, cases=cnt)
    for fp in sorted(problems):
        what, res = problems[fp]
        case = dict(res["case"])
        ok = list(pool.map(_h_confirm, [(case, fp, base)]))[0]
        if ok:
            findings.report(fp, what, "# part=H\n" + core.case_text(case, res["script"]))
        else:
            ev.diag("unconfirmed candidate: %s" % fp)


def _h_confirm(args):
    case, fp, base = args
    hits = 0
    for _ in range(2):
        core.close_drvs()
        res = h_case(dict(case, fresh=True))
        names = [case["a"]] + ([case["b"]] if case.get("b") else [])
        if any(k != base[nm] for nm, k in zip(names, res["keys"])):
            hits += 1
    core.close_drvs()
    return hits == 2


# ------------------------------------------------------------------------------------------------ part T
def part_t(tier, ev, findings, dl, stats):
    exe = build_freerun()
    scratch = tempfile.mkdtemp(prefix="fr", dir=drv.SCRATCH_ROOT if os.path.isdir(drv.SCRATCH_ROOT) else None)
    reps = 3 if tier == "quick" else 20
    try:
        env = dict(os.environ, TSAN_OPTIONS="halt_on_error=0 report_signal_unsafe=0 exitcode=0 history_size=4 second_deadlock_stack=1")
        # the bodies that run TRANSPORT are left out: their race on transport.cpp's file-scope variables is established
        # deterministically by part S (known finding F2); under a free-running scheduler it would only add reports
        # whose set changes from run to run
        fbodies = [b for b in BODIES + MODEL_BODIES if b not in TRANSPORT_BODIES]
        p = subprocess.run([exe, MINI, DBDIR, scratch, str(reps)] + fbodies, stdout=subprocess.PIPE, stderr=subprocess.PIPE, text=True, env=env, timeout=max(60, dl.left() + 120))
        reports = re.split(r"={18}\n", p.stderr)
        n = 0
        seen = {}
        for rep in reports:
            if "WARNING: ThreadSanitizer" not in rep:
                continue
            n += 1
            kind = re.search(r"WARNING: ThreadSanitizer: ([^\n(]+)", rep).group(1).strip()
            if not (kind.startswith("data race") or kind.startswith("lock-order-inversion") or kind.startswith("heap-use-after-free")):
                stats["diags"].add("tsan: " + kind)      # e.g. "unlock of an unlocked mutex" (thread.h qsort macro, F5): lock discipline, rule R1
                continue
            frames = re.findall(r"#\d+ ([^\n]*?) (/[^\s:]+):(\d+)", rep)
            repo_frames = [(fn, os.path.relpath(f, build.REPO), ln) for fn, f, ln in frames if f.startswith(build.REPO + "/src")]
            if not repo_frames:
                continue
            loc = re.search(r"Location is global '([^']+)'", rep)
            fn, f, ln = repo_frames[0]
            fp = "tsan %s %s" % (kind, ("global=%s" % loc.group(1)) if loc else ("at=%s:%s" % (f, fn.split("(")[0])))
            seen.setdefault(fp, rep[:3000])
        stats["tsan_reports"] = n
        if p.returncode != 0:
            seen.setdefault("free-running harness failed rc=%d" % p.returncode, (p.stdout[-1500:] + p.stderr[-1500:]))
        for fp in sorted(seen):
            findings.report(fp, "ThreadSanitizer (free-running companion, %d threads x %d repetitions):\n%s" % (4, reps, seen[fp]), "# part=T\n# bodies=%s\n" % ",".join(fbodies))
        ev.bound("free-running ThreadSanitizer companion (sampling, not deciding): 4 threads x %d repetitions x %d bodies" % (reps, len(fbodies)), True, reports=n)
    finally:
        shutil.rmtree(scratch, ignore_errors=True)


# ------------------------------------------------------------------------------------------------ entry points
def run(tier):
    ev = core.Evidence(PROP, tier)
    findings = core.Findings(PROP)
    ev.assumptions = [
        "sequentially consistent memory; code between two visible events is atomic (sound for data-race-free code; races on static storage are detected by the explorer itself, races confined to heap/libc are left to the free-running ThreadSanitizer companion, which samples)",
        "static storage = the executable's .data/.bss (non-PIE); writes performed inside uninstrumented libstdc++/libc code are seen only for the interposed mem*/str*/*printf family",
        "lockset rule: two threads touching one static location, one of them writing, without a common modelled lock is a data race in some interleaving (the bodies are independent: no inter-thread control dependence exists that could order them)",
        "masked as the statement allows: elapsed-time banner (and the dash rows whose length follows it), instance ids inside default file names",
        "the Fortran module is not exercised (no compiler); bodies use the C and C++ APIs",
    ]
    exe = build_vsched()
    syms = Symbols(exe)
    stats = {"schedules": 0, "points": 0, "max_points": 0, "outcomes": 0, "per_harness": [], "written": set(), "diags": set(), "h_outcomes": set(), "tsan_reports": None}
    dl = core.Deadline(170 if tier == "quick" else 5400)
    part_s(tier, exe, syms, ev, findings, dl, stats)
    pool = core.Pool()
    try:
        part_h(tier, ev, findings, pool, core.Deadline(60 if tier == "quick" else 600), stats)
    finally:
        pool.close()
    if os.environ.get("VERIF_C06_NO_TSAN") != "1":
        part_t(tier, ev, findings, core.Deadline(120 if tier == "quick" else 900), stats)
    ev.traces += stats["schedules"]
    ev.transitions += stats["points"]
    ev.n_states_extra = stats["schedules"]
    ev.extra["schedules_explored"] = stats["schedules"]
    ev.extra["scheduling_points_executed"] = stats["points"]
    ev.extra["max_points_per_schedule"] = stats["max_points"]
    ev.extra["harnesses"] = stats["per_harness"]
    ev.extra["static_symbols_written_by_bodies"] = sorted(stats["written"])
    ev.extra["lock_discipline_diagnostics"] = sorted(stats["diags"])
    ev.extra["call_interleaving_outcomes"] = len(stats["h_outcomes"])
    ev.extra["tsan_reports_seen"] = stats["tsan_reports"]
    ev.extra["trace_validation"] = "every explored schedule is an execution of the real library (one forked process per schedule); the default schedule is replayed and must reproduce its trace; every child schedule must reproduce its parent's prefix (hard error otherwise)"
    for s in stats["per_harness"][:4]:
        ev.sample(s)
    if stats["schedules"] < 100 or stats["outcomes"] < 20:
        raise SystemExit("C06: vacuous exploration (%d schedules, %d outcomes)" % (stats["schedules"], stats["outcomes"]))
    return core.finish(ev, findings)


def replay(path):
    txt = open(path, encoding="latin-1").read()
    m = re.search(r"^# part=(\w)", txt, re.M)
    part = m.group(1) if m else "S"
    findings = core.Findings(PROP)
    if part == "S":
        exe = build_vsched()
        syms = Symbols(exe)
        bodies = re.search(r"^# bodies=(.*)$", txt, re.M).group(1).split(",")
        devs = re.search(r"^# devs=(.*)$", txt, re.M).group(1).strip()
        scratch = tempfile.mkdtemp(prefix="vs")
        try:
            dump = os.path.join(scratch, "dump")
            rr = run_schedule(exe, bodies, devs, scratch, dump=None)
        finally:
            shutil.rmtree(scratch, ignore_errors=True)
        print(rr["text"])
        new = 0
        fps = set()
        for a in rr["races"]:
            sym, obj = syms.resolve(a)
            fps.add("race on static storage symbol=%s object=%s" % (sym, obj))
        for t, d in rr["viols"]:
            fps.add(viol_fp(t, d, bodies))
        for fp in sorted(fps):
            k = findings.match(fp)
            if k:
                print("KNOWN-FINDING: property=%s %s" % (PROP, k["what"]))
            else:
                new += 1
                print("VIOLATION property=%s replay=%s\n  fingerprint: %s" % (PROP, path, fp))
        if not fps:
            print("replay of %s: property holds on this schedule" % path)
        return 1 if new else 0
    if part == "H":
        case = core.load_case(path)
        names = [case["a"]] + ([case["b"]] if case.get("b") else [])
        base = {}
        for nm in set(names):
            base[nm] = h_case({"a": nm, "b": None, "order": "0" * len(STEPS), "fresh": True})["keys"][0]
        res = h_case(dict(case, fresh=True))
        core.close_drvs()
        bad = [nm for nm, k in zip(names, res["keys"]) if k != base[nm]]
        if bad:
            print("VIOLATION property=%s replay=%s\n  instances %s differ from their lone-instance baseline" % (PROP, path, bad))
            return 1
        print("replay of %s: property holds on this case" % path)
        return 0
    print("part T findings are replayed by running ./check C06 quick (free-running companion)")
    return 0
