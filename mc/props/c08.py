"""C08  Bad input is reported as errors; it never crashes or poisons the instance.

Shape L (deviation-bounded), build variant `san` (clang ASan+UBSan, exit/_exit/abort interposed by vdrv).

Every case is one history on the real library:
    new instance . LoadDatabase(phreeqc.dat)=0 . prelude (a successful RunString that defines one entity of every
    kind and emits a WARNING) . AddError/AddWarning markers . THE CALL (bad text / bad file / bad name) .
    full observation (all getters, strings, lines, tables) . LoadDatabase(phreeqc.dat) . probe . observation . Destroy
and is judged by the four relations of the statement (see `judge`).  The enumeration (mc/oracles/c08_gen.py) is the
complete set of inputs within one deviation (two in the thorough tier, restricted to one block) of valid inputs that
cover every keyword block, plus grammar-generated one-option blocks, undefined entity numbers, truncated BASIC
programs, all tiny strings over a 12-character alphabet and the file-fault sequences.
"""
import json
import os
import re

from .. import core, build, drv
from ..oracles import c08_gen as G

PROP = "C08"
DB = os.path.join(build.REPO, "database", "phreeqc.dat")
EXDIR = os.path.join(build.REPO, "phreeqc3-examples")
MARK_E = "C08MARK-E stale error text\n"
MARK_W = "C08MARK-W stale warning text\n"
MARK_IN = "Zzmark"                      # the prelude's own WARNING mentions this element name
CALL_TIMEOUT = 40.0

BANNER = re.compile(r"-+\nEnd of Run after [0-9.eE+-]+ Seconds\.\n-+\n")
DEFNAME = re.compile(r"\b(phreeqc|dump|selected_\d+)\.\d+\.(out|err|log)\b")

PROBE = """TITLE C08 probe
SOLUTION 1
 temp 30
 pH 7 charge
 Ca 1
 Na 2
 C 3
 Cl 1
EQUILIBRIUM_PHASES 1
 Calcite 0 0.01
 CO2(g) -2.5 1
EXCHANGE 1
 X 0.01
 -equilibrate 1
KINETICS 1
 Calcite
 -m 0.001
 -parms 1 0.6
 -steps 50 in 2 steps
SELECTED_OUTPUT 1
 -high_precision true
 -totals Ca C Na
 -si Calcite
 -kinetic_reactants Calcite
USER_PUNCH 1
 -headings g
 10 PUNCH GET(1) + CALC_VALUE("c08nothing")
DUMP
 -all
END
USE solution 3
USE surface 1
END
"""

SWITCHES = ["SetOutputStringOn", "SetErrorStringOn", "SetErrorOn", "SetLogStringOn", "SetDumpStringOn", "SetSelectedOutputStringOn"]


# ------------------------------------------------------------------------------------------ the call of a case
def case_call(case):
    """-> (setup commands, api function, argument, label) ; setup = driver commands executed before the call"""
    k = case["k"]
    setup = []
    via = case.get("via", "str")
    if k in ("d0", "d1", "d2"):
        text = G.base_text(case["base"])
        if k == "d1":
            text = G.edited(text, [case["e"]])
        elif k == "d2":
            text = G.edited(text, [case["e1"], case["e2"]])
    elif k == "long":
        # one line of a base input made longer than the engine's initial line buffers (comment, blanks or a long token)
        ls = G.lines_of(G.base_text(case["base"]) if case["base"] != "minidb" else G.read("minidb.dat"))
        body = ls[case["line"]].rstrip("\r\n")
        how, n = case["how"], case["n"]
        if how == "comment":
            body = body + " # " + "c" * max(0, n - len(body) - 3)
        elif how == "blanks":
            body = body + " " * max(0, n - len(body))
        elif how == "token":
            body = body + " " + "T" * max(0, n - len(body) - 1)
        elif how == "lead":
            body = " " * max(0, n - len(body)) + body
        ls[case["line"]] = body + "\n"
        text = G.join(ls)
        if case["base"] == "minidb":
            via = "db" if via == "str" else "dbfile"
    elif k == "ent":
        text = G.entity_texts()[case["i"]][1]
    elif k == "gram":
        text = G.grammar_texts(G.GRAM_ARGS)[case["i"]][1]
    elif k == "basic":
        text = G.basic_text(case["h"], case["p"], case["n"])
        if case.get("files"):      # the same with the file sinks open while the BASIC error is raised
            setup = [("call", "s0", "c", fn_, 1) for fn_ in ("SetSelectedOutputFileOn", "SetOutputFileOn", "SetLogFileOn", "SetDumpFileOn")]
    elif k == "tiny":
        text = case["s"]
        via = case["as"]
    elif k == "ex":
        with open(os.path.join(EXDIR, case["name"]), encoding="latin-1", newline="") as f:
            text = f.read()
        if case.get("e"):
            text = G.edited(text, [case["e"]])
    elif k == "db":
        text = G.read(case["db"]) if case["db"] != "phreeqc.dat" else open(DB, encoding="latin-1", newline="").read()
        if case.get("e"):
            text = G.edited(text, [case["e"]])
        if case.get("cut") is not None:
            text = text[:case["cut"]]
        via = "db" if via == "str" else "dbfile"
    elif k == "fault":
        return fault_call(case)
    else:
        raise ValueError("unknown case kind %r" % k)
    if via == "str":
        return setup, "RunString", text
    if via == "file":
        return [("writefile", "case.in", text)], "RunFile", "case.in"
    if via == "acc":
        # AccumulateLine keeps NUL-free text line by line; RunAccumulated then runs it
        return [("call", "s0", "c", "AccumulateLine", l) for l in text.split("\n")], "RunAccumulated", None
    if via == "db":
        return setup, "LoadDatabaseString", text
    if via == "dbfile":
        return [("writefile", "case.dat", text)], "LoadDatabase", "case.dat"
    if via == "runfile-name":
        return setup, "RunFile", text
    if via == "loaddb-name":
        return setup, "LoadDatabase", text
    raise ValueError("unknown delivery %r" % via)


GOOD = "SOLUTION 9\n pH 7\n Na 1\n Cl 1\nSELECTED_OUTPUT 1\n -totals Na\nDUMP\n -solution 9\nEND\n"
BAD = "SOLUTION 9\n pH 7\n Na 1 mg/zz\nEQUILIBRIUM_PHASES 9\n Nosuchphase 0 1\nSELECTED_OUTPUT 1\n -totals Na\nDUMP\n -solution 9\nEND\n"
BADNAMES = {"dir": "adir", "noparent": "nodir/sub/x.out", "devfull": "/dev/full", "empty": "", "long": "n" * 5000, "devnull/x": "/dev/null/x"}
SINKS = {"Output": ("SetOutputFileName", "SetOutputFileOn"), "Error": ("SetErrorFileName", "SetErrorFileOn"), "Log": ("SetLogFileName", "SetLogFileOn"),
         "Dump": ("SetDumpFileName", "SetDumpFileOn"), "SelectedOutput": ("SetSelectedOutputFileName", "SetSelectedOutputFileOn")}
INFILES = {"missing": "nosuchfile.in", "dir": "adir", "empty": "empty.in", "emptyname": "", "devnull": "/dev/null", "binary": "binary.in",
           "noeol": "noeol.in", "self-include": "selfinc.in", "long": "n" * 5000, "include-missing": "incmissing.in", "include-dir": "incdir.in",
           "include-empty": "incempty.in", "crlf": "crlf.in", "nul": "nul.in"}


def fault_call(case):
    f = case["f"]
    if f == "sink":           # an output sink that cannot be opened / written, switch on or off, good or bad input
        name_fn, on_fn = SINKS[case["sink"]]
        setup = [("call", "s0", "c", name_fn, BADNAMES[case["name"]]), ("call", "s0", "c", on_fn, case["on"])]
        return setup, "RunString", (GOOD if case["good"] else BAD)
    if f == "insel":          # file names inside the input text
        t = "SOLUTION 9\n pH 7\nSELECTED_OUTPUT 1\n -file %s\n -totals Na\nDUMP\n -file %s\n -solution 9\nUSER_GRAPH 1\n -plot_tsv_file %s\nEND\n" % ((BADNAMES[case["name"]],) * 3)
        return [("call", "s0", "c", "SetSelectedOutputFileOn", case["on"]), ("call", "s0", "c", "SetDumpFileOn", case["on"])], "RunString", t
    if f == "runfile":
        return [], "RunFile", INFILES[case["name"]]
    if f == "loaddb":
        return [], "LoadDatabase", INFILES[case["name"]]
    if f == "include":
        return [], "RunString", "SOLUTION 9\n pH 7\nINCLUDE$ %s\nEND\n" % INFILES[case["name"]]
    if f == "dbinclude":
        return [], "LoadDatabaseString", "INCLUDE$ %s\nEND\n" % INFILES[case["name"]]
    if f == "components":     # GetComponentCount / GetComponent right after a run with an unknown phase / an over-long element name
        return [], "RunString", (BAD if case["name"] == "badphase" else "SOLUTION 9\n pH 7\n %s 1\nEND\n" % G.DICT[5])
    if f == "nodb":           # run without a loaded database is the classic failed call
        return [("call", "s0", "c", "LoadDatabaseString", "SOLUTION_MASTER_SPECIES\n bogus\nEND\n")], "RunString", GOOD
    raise ValueError(f)


SCRATCH_FILES = [("inc1.in", " Na 1\n"), ("inc2.in", " K 1\n"), ("empty.in", ""), ("binary.in", "".join(chr(i) for i in range(256)) * 4),
                 ("noeol.in", "SOLUTION 9\n pH 7\nEND"), ("selfinc.in", "SOLUTION 9\n pH 7\nINCLUDE$ selfinc.in\nEND\n"),
                 ("incmissing.in", "SOLUTION 9\nINCLUDE$ nosuch.in\nEND\n"), ("incdir.in", "SOLUTION 9\nINCLUDE$ adir\nEND\n"),
                 ("incempty.in", "SOLUTION 9\nINCLUDE$ empty.in\nEND\n"), ("crlf.in", "SOLUTION 9\r\n pH 7\r\n Na 1\r\nEND\r\n"),
                 ("nul.in", "SOLUTION 9\n pH 7\x00 8\n Na 1\nEND\n")]


# ------------------------------------------------------------------------------------------ driver with a memory fence
SOFT_RSS_MB, HARD_RSS_MB, REL_AS_MB = 500, 1200, 1500


class FencedDrv(drv.Drv):
    """drv.Drv plus a memory fence: some one-token deviations make the engine allocate without bound (observed:
    `COPY solution 1 -1` grows by 0.75 GB/s); 16 such workers would take the machine down.  san: ASan's soft RSS limit
    makes the next allocation fail, which ASan reports as out-of-memory with a stack (in production: std::bad_alloc);
    rel: RLIMIT_AS, so operator new throws std::bad_alloc."""

    def start(self):
        import resource
        import subprocess
        import tempfile
        self.close()
        os.makedirs(drv.SCRATCH_ROOT, exist_ok=True)
        self.dir = tempfile.mkdtemp(prefix="d", dir=drv.SCRATCH_ROOT)
        env = dict(os.environ)
        pre = None
        if self.variant == "san":
            env.update(drv.SAN_ENV)
            env["ASAN_OPTIONS"] += ":quarantine_size_mb=48:soft_rss_limit_mb=%d:hard_rss_limit_mb=%d" % (SOFT_RSS_MB, HARD_RSS_MB)
        else:
            def pre():
                resource.setrlimit(resource.RLIMIT_AS, (REL_AS_MB << 20, REL_AS_MB << 20))
        self.errpath = os.path.join(self.dir, "stderr.txt")
        self.errf = open(self.errpath, "wb")
        self.proc = subprocess.Popen([self.exe, "--dir", self.dir], stdin=subprocess.PIPE, stdout=subprocess.PIPE,
                                     stderr=self.errf, env=env, bufsize=0, preexec_fn=pre)
        self.buf = b""
        self.log = []


def get_drv(variant):
    """Per-process cached fenced driver, registered in core's cache so that core.close_drvs() (replay-before-report)
    really gives brand-new processes."""
    key = (variant, False)
    d = core._drvs.get(key)
    if not isinstance(d, FencedDrv) or d.proc is None or d.proc.poll() is not None:
        if d is not None:
            d.close()
        d = FencedDrv(variant)
        core._drvs[key] = d
    return d


# ------------------------------------------------------------------------------------------ driver helpers
class CallFailure(Exception):
    """An API call did not return normally."""

    def __init__(self, kind, fp, what, ubsan_only=False):
        Exception.__init__(self, what)
        self.kind, self.fp, self.what, self.ubsan_only = kind, fp, what, ubsan_only


def repo_rel(path):
    path = path.replace(build.REPO + "/", "")
    m = re.search(r"(src/\S+)", path)
    return m.group(1) if m else os.path.basename(path)


def _func_site(err, path, line):
    """'<file>:<function>' of the stack frame at path:line (line numbers shift with every unrelated edit of the file and
    must not be part of a fingerprint); '<file>' alone when the frame is not in the report."""
    m = re.search(r"(?m)^\s*#\d+ 0x[0-9a-f]+ in (.+?) " + re.escape(path) + ":" + str(line) + r"(?::\d+)?$", err)
    f = repo_rel(path)
    if not m:
        return f
    fn = re.sub(r"\(.*$", "", m.group(1)).strip()
    fn = re.sub(r"<.*>", "<>", fn)
    return "%s:%s" % (f, fn)


def parse_report(err):
    """-> (kind, site, ubsan_only) from a sanitizer report on stderr"""
    # drv keeps the last 20000 bytes of stderr: with template-heavy stacks the header can be cut off, the SUMMARY line never is
    asan = re.search(r"ERROR: AddressSanitizer: ([\w-]+)", err) or re.search(r"SUMMARY: AddressSanitizer: ([\w-]+)", err)
    ub = re.search(r"(\S+?):(\d+):\d+: runtime error: ([^\n]*)", err)
    if asan and asan.group(1) in ("out-of-memory", "allocation-size-too-big", "calloc-overflow") or "rss limit exhausted" in err or "SUMMARY: AddressSanitizer: out-of-memory" in err:
        # memory exhaustion: the site of the failing allocation is arbitrary; the stable site is the engine function
        # called from the run loop
        fr = re.findall(r"#\d+ 0x[0-9a-f]+ in (\S+?)\(", err) or re.findall(r"#\d+ 0x[0-9a-f]+ in (\S+)", err)
        site = "?"
        for i, f in enumerate(fr):
            if f.startswith(("IPhreeqc::do_run", "Phreeqc::read_input", "IPhreeqc::load_db", "Phreeqc::read_database")) and i > 0:
                site = fr[i - 1] if not f.startswith("Phreeqc::read_input") else f
                break
        return "memory exhaustion (std::bad_alloc or the OOM killer in production)", site, False
    if asan and asan.group(1) == "ABRT" and re.search(r"Assertion `[^\n]*' failed", err):
        asan = None          # assert() of the instrumented build (handled below like before)
    if asan:
        site = "?"
        for m in re.finditer(r"(?m)^\s*#\d+ 0x[0-9a-f]+ in (.+?) (/\S+?):(\d+)(?::\d+)?$", err):
            if build.REPO in m.group(2) or "/src/" in m.group(2):
                if asan.group(1) == "ABRT" and re.match(r"Utilities::str(cpy|cat)_safe", m.group(1)):
                    continue          # the utility that aborts: its caller is the site
                site = _func_site(err, m.group(2), m.group(3))
                break
        if asan.group(1) == "ABRT":
            words = [l.strip() for l in err.splitlines() if l.strip() and not l.lstrip().startswith(("==", "#", "SUMMARY", "AddressSanitizer", "The signal", "Hint"))][:2]
            return "abort (%s)" % "; ".join(w[:80] for w in words), site, False
        if site == "?":
            m = re.search(r"SUMMARY: AddressSanitizer: [\w-]+ (/\S+?):(\d+)", err)
            if m:
                site = _func_site(err, m.group(1), m.group(2))
        return "asan " + asan.group(1), site, False
    asrt = re.search(r"(\S+?):(\d+): [^\n]*Assertion `([^\n]*)' failed", err)
    if asrt:
        # assert() is compiled out of the shipped (NDEBUG) configuration: a debugging aid firing, like a UBSan report
        return "assert(%s)" % asrt.group(3)[:60], repo_rel(asrt.group(1)), True
    if ub:
        msg = re.sub(r"0x[0-9a-f]+", "ADDR", ub.group(3))
        msg = re.sub(r"-?\d+(\.\d+)?(e[+-]?\d+)?", "N", msg)
        return "ubsan " + msg, _func_site(err, ub.group(1), ub.group(2)), True
    return None, None, False


def abort_site(err):
    """abort() / std::terminate in the instrumented build: the driver's abort() prints the stack; the site is the first
    frame of the library that is not the utility which aborts (strcpy_safe / strcat_safe are reached from dozens of
    places: their caller tells the occurrences apart)."""
    for m in re.finditer(r"(?m)^\s*#\d+ 0x[0-9a-f]+ in (.+?) (/\S+?):(\d+)(?::\d+)?$", err):
        if (build.REPO in m.group(2) or "/src/" in m.group(2)) and "/native/" not in m.group(2):
            if re.match(r"Utilities::str(cpy|cat)_safe", m.group(1)):
                continue
            return _func_site(err, m.group(2), m.group(3))
    return "?"


def died_kind(e):
    """Death without a sanitizer report: abort()/std::terminate/signal; the library's own last words name the site."""
    k = e.fatal or "driver died rc=%s" % e.returncode
    last = [l.strip() for l in (e.stderr or "").splitlines() if l.strip()]
    words = [l for l in last if not l.startswith(("==", "#"))][:2]
    return "%s (%s)" % (k, "; ".join(w[:80] for w in words)) if words else k


def api(d, fn, *args, phase="", timeout=None):
    """One API call that must return normally; raises CallFailure otherwise."""
    try:
        r = d.cmd("call", "s0", "c", fn, *args, timeout=timeout)
    except drv.DrvTimeout:
        raise CallFailure("hang", None, "%s%s did not return within the time limit" % (phase, fn))
    except drv.DrvDied as e:
        kind, site, ub_only = parse_report(e.stderr or "")
        if kind is None:
            kind, site = died_kind(e), abort_site(e.stderr or "")
        tail = "\n".join(l[:220] for l in (e.stderr or "").strip().splitlines()[:12])
        raise CallFailure("died", "crash in %s: %s at %s" % (phase.strip() or "the call", kind, site),
                          "%s%s did not return: %s at %s\n%s" % (phase, fn, kind, site, tail), ub_only)
    if "exit" in r:
        raise CallFailure("exit", "process exit inside %s (exit code %s)" % (phase.strip() or "the call", r["exit"]),
                          "the library called exit(%s) inside %s%s" % (r["exit"], phase, fn))
    if "exc" in r:
        what = re.sub(r"\d+", "N", r["exc"])
        if what.startswith(("missing ", "unknown function", "bad ", "no slot", "cpp binding")):
            raise RuntimeError("vdrv usage error: %s" % r["exc"])
        raise CallFailure("exception", "exception escapes %s: %s" % (phase.strip() or "the call", what[:80]),
                          "a C++ exception escaped %s%s: %s" % (phase, fn, r["exc"]))
    return r["r"]


def n_errors(s):
    """Number of recorded error messages: lines with the engine's ERROR: prefix; a non-blank error string without any
    such line (e.g. the include-file banner '***  Could not open include file') still is one recorded message."""
    n = len(re.findall(r"(?m)^ERROR:", s))
    return n if n else (1 if s.strip() else 0)


def mask(v):
    if isinstance(v, str):
        if "End of Run" in v:
            v = BANNER.sub("<end-of-run banner>\n", v)
        return DEFNAME.sub(r"\1.ID.\2", v)
    if isinstance(v, list):
        return [mask(x) for x in v]
    if isinstance(v, dict):
        return {k: mask(x) for k, x in v.items()}
    return v


def observe(d, flags="gscut"):
    try:
        o = d.obs("s0", "c", flags)
        f = d.files()
    except drv.DrvTimeout:
        raise CallFailure("hang", None, "the getters did not return within the time limit")
    except drv.DrvDied as e:
        kind, site, ub_only = parse_report(e.stderr or "")
        if kind is None:
            kind, site = died_kind(e), abort_site(e.stderr or "")
        raise CallFailure("died", "crash in the getters after the call: %s at %s" % (kind, site),
                          "reading the getters/strings/tables did not return: %s at %s\n%s" % (kind, site, "\n".join(l[:220] for l in (e.stderr or "").splitlines()[:12])), ub_only)
    o = mask(o)
    o["files"] = {mask(k): mask(v) for k, v in f.items() if k not in SCRATCH_NAMES}
    return o


SCRATCH_NAMES = set(n for n, _ in SCRATCH_FILES) | {"case.in", "case.dat"}


def fresh(d):
    d.reset()
    d.new("c")
    for s in SWITCHES:
        d.cmd("call", "s0", "c", s, 1)


def reload_probe(d, phase):
    d.cmd("rmfiles")
    rc = api(d, "LoadDatabase", DB, phase=phase, timeout=CALL_TIMEOUT)
    if rc != 0:
        return rc, None
    prc = api(d, "RunString", PROBE, phase=phase + "probe ", timeout=CALL_TIMEOUT)
    o = observe(d)
    o["probe rc"] = prc
    return rc, o


_ref = {}
NAME_KEYS = ("GetOutputFileName", "GetErrorFileName", "GetLogFileName", "GetDumpFileName", "GetSelectedOutputFileName")


def survivors_of(setup):
    """The API setter calls of a case's setup (file names and file switches): a load lets them survive, so the
    brand-new reference instance gets the same calls before its load."""
    return [c for c in setup if c[0] == "call" and c[3].startswith("Set")]


def reference(variant, surv=()):
    """Fresh-instance behaviour: brand-new instance, same switches (and same user-set file names/switches), load, probe."""
    key = (variant, json.dumps(surv))
    if key not in _ref:
        d = get_drv(variant)
        fresh(d)
        d.cmd("mkdir", "adir")
        for c in surv:
            d.cmd(*c)
        rc, o = reload_probe(d, "reference ")
        if rc != 0 or o is None:
            raise RuntimeError("reference load failed")
        # vacuity guards: the probe really produces the observables the comparison relies on
        if not surv:
            assert o["probe rc"] == 1, o["probe rc"]           # the probe's second simulation uses an undefined solution
            assert len(o["GetOutputString"]) > 3000 and len(o["GetDumpString"]) > 500
            assert len(o["sel"]["1"]["table"]) >= 5 and o["GetComponentCount"] >= 4
        _ref[key] = o
    return _ref[key]


def diff_channels(a, b, files=True):
    out = []
    for k in sorted(set(a) | set(b)):
        if k in NAME_KEYS or (k == "files" and not files):
            continue                 # user-set file names survive a load (C07); files of the file-fault cases go to those names
        if a.get(k) != b.get(k):
            if k == "sel":
                for u in sorted(set(a[k]) | set(b[k])):
                    ea, eb = a[k].get(u, {}), b[k].get(u, {})
                    for kk in sorted(set(ea) | set(eb)):
                        if kk != "fname" and ea.get(kk) != eb.get(kk):
                            out.append("selected-output.%s" % kk)
            elif k == "files":
                out.append("files")
            else:
                out.append(re.sub(r"^Get", "", k))
    return sorted(set(out))


def first_diff(a, b):
    a, b = (a if isinstance(a, str) else json.dumps(a, sort_keys=True)), (b if isinstance(b, str) else json.dumps(b, sort_keys=True))
    i = next((k for k, (x, y) in enumerate(zip(a, b)) if x != y), min(len(a), len(b)))
    return "at char %d: after reload %r / fresh %r" % (i, a[max(0, i - 40):i + 60], b[max(0, i - 40):i + 60])


def norm_msg(line):
    s = re.sub(r"-?\d+(\.\d+)?([eE][+-]?\d+)?", "N", line)
    s = re.sub(r"(include file|open dump file|Unable to open:?)\s*\S.*", r"\1 <name>", s)
    s = re.sub(r"\s+", " ", s).strip()
    return s[:70]


# ------------------------------------------------------------------------------------------ one case
def execute(variant, case):
    """Runs the case; -> result dict (problems, diagnostics, outcome...).  CallFailure(ubsan_only) propagates."""
    d = get_drv(variant)
    problems, diags = [], []
    setup, fn, arg = case_call(case)
    text_of_call = arg if fn in ("RunString", "LoadDatabaseString") else next((c[2] for c in setup if c[0] == "writefile"), None) or "\n".join(c[4] for c in setup if c[0] == "call" and c[3] == "AccumulateLine")
    surv = survivors_of(setup)
    # (a DUMP -file <name> that could not be opened never becomes the instance's dump file name: GetDumpFileName keeps the
    #  previous name, and since fix 0f9e3e19 a load also returns the engine's pending dump request to that name)
    ref = reference(variant, surv)
    fresh(d)
    d.cmd("mkdir", "adir")
    for name, content in SCRATCH_FILES:
        d.cmd("writefile", name, content)
    if api(d, "LoadDatabase", DB, phase="initial ", timeout=CALL_TIMEOUT) != 0:
        raise RuntimeError("phreeqc.dat does not load")
    pre_rc = api(d, "RunString", G.base_text("prelude"), phase="prelude ", timeout=CALL_TIMEOUT)
    pre_w = d.cmd("call", "s0", "c", "GetWarningString")["r"]
    if pre_rc != 0 or MARK_IN not in pre_w:
        raise RuntimeError("prelude is not a successful call with a warning: rc=%r warn=%r" % (pre_rc, pre_w[:200]))
    d.cmd("call", "s0", "c", "AddError", MARK_E)
    d.cmd("call", "s0", "c", "AddWarning", MARK_W)
    for c in setup:
        r = d.cmd(*c)
        if "exc" in r:
            raise RuntimeError("setup command failed: %r -> %r" % (c[:4], r))
    # ---- THE CALL
    try:
        rc = api(d, fn, *([] if arg is None else [arg]), timeout=CALL_TIMEOUT)
    except CallFailure as e:
        if e.ubsan_only:
            raise
        if e.kind == "hang":
            return {"problems": [], "diagnostics": ["hang: %s (case %s)" % (e.what, json.dumps(case)[:200])], "not_completed": True, "outcome": "hang", "ops": 3, "script": "\n".join(getattr(d, "dead_log", [])) + "\n"}
        return {"problems": [(e.fp, e.what)], "diagnostics": [], "outcome": "abnormal:" + e.kind, "ops": 3, "script": "\n".join(getattr(d, "dead_log", [])) + "\n",
                "summary": {"fn": fn, "abnormal": e.kind}}
    try:
        err = d.cmd("call", "s0", "c", "GetErrorString")["r"]
        warn = d.cmd("call", "s0", "c", "GetWarningString")["r"]
        # components are listed after the reload only: listing them after a failed run with an unknown phase trips a
        # debug-only assert(false) (PPassemblageComp.cxx:336, one dedicated case keeps that on record) and would move
        # every such case off the sanitizer build
        o1 = observe(d, "gscut" if case.get("f") == "components" else "sut")
        ne = n_errors(err)
        # (2) return value non-zero exactly when an ERROR message was recorded
        if rc != 0 and ne == 0:
            last = [l for l in (err + warn).splitlines() if l.strip()]
            problems.append(("return value non-zero without an ERROR message: %s" % fn,
                             "%s returned %d but the error string holds no ERROR message (error string %r, warnings %r)" % (fn, rc, err[:300], warn[:300])))
        if rc == 0 and ne > 0:
            first = next((l for l in err.splitlines() if l.startswith("ERROR:")), None) or next(l for l in err.splitlines() if l.strip())
            problems.append(("return value 0 despite ERROR message: %s: %s" % (fn, norm_msg(first)),
                             "%s returned 0 although %d ERROR message(s) were recorded for the call; first: %r" % (fn, ne, first[:300])))
        # (3) the strings describe that call only
        for nm, s, marks in (("error", err, (MARK_E.strip(), MARK_IN)), ("warning", warn, (MARK_W.strip(), MARK_IN))):
            for mk in marks:
                if mk in s and mk not in (arg or "") and not (case["k"] == "d0" and case["base"] == "prelude"):
                    problems.append(("stale %s text survives into the next call: %s" % (nm, fn),
                                     "the %s string after %s still contains %r which was recorded before the call: %r" % (nm, fn, mk, s[:300])))
        if o1.get("GetErrorString", mask(err)) != mask(err) or o1.get("GetWarningString", mask(warn)) != mask(warn):
            diags.append("error/warning string changed between two reads without a call in between (%s)" % fn)
        # a successful database-load call leaves a usable instance: one more in-scope call on it
        ops = 4
        rc2 = None
        if fn.startswith("LoadDatabase") and rc == 0:
            rc2 = api(d, "RunString", G.read("minidb_probe.in"), phase="run after the accepted database ", timeout=CALL_TIMEOUT)
            err2 = d.cmd("call", "s0", "c", "GetErrorString")["r"]
            observe(d, "sut")
            ops += 1
            if (rc2 != 0) != (n_errors(err2) > 0):
                first = next((l for l in err2.splitlines() if l.startswith("ERROR:")), "")
                problems.append(("return value vs ERROR messages, run after an accepted database: rc %s0, %s" % ("!=" if rc2 else "==", norm_msg(first)),
                                 "RunString after the accepted database returned %d with %d ERROR messages; %r" % (rc2, n_errors(err2), err2[:300])))
        # (4) after the call a successful LoadDatabase restores the fresh-state behaviour
        lrc, o2 = reload_probe(d, "reload ")
        failed = rc != 0 or (rc2 is not None and rc2 != 0)
        chans = None
        if lrc != 0:
            lerr = d.cmd("call", "s0", "c", "GetErrorString")["r"]
            msg = ("LoadDatabase fails after the call: %s" % norm_msg(next((l for l in lerr.splitlines() if l.strip()), "")).split('"')[0],
                   "LoadDatabase(phreeqc.dat) returned %d after %s (rc %d) although a brand-new instance with the same switches and file names loads it: %r" % (lrc, fn, rc, lerr[:300]))
            if failed:
                problems.append(msg)
            else:
                diags.append("C07 matter (call succeeded): %s" % msg[1])
        else:
            chans = diff_channels(o2, ref, files=not (case["k"] == "fault" and case["f"] == "insel"))
            if chans:
                k0 = "Get" + chans[0] if ("Get" + chans[0]) in o2 else chans[0]
                what = "after %s (rc %d) and a successful LoadDatabase the probe differs from a brand-new instance in %s\n%s" % (
                    fn, rc, ", ".join(chans), first_diff(o2.get(k0, o2.get("sel")), ref.get(k0, ref.get("sel"))))
                if failed:
                    # the engine keeps DUMP / DELETE / RUN_CELLS requests in members that neither a failed run nor
                    # LoadDatabase resets (Phreeqc::dump_info, delete_info, run_info; the *_MIX blocks likewise): name that mechanism by the
                    # request blocks of the failed input; anything else is named by the differing channels
                    req = sorted(set(("*_MIX" if l.split()[0].upper().endswith("_MIX") else l.split()[0].upper()) for l in (text_of_call or "").split("\n")
                                     if l.split() and (l.split()[0].upper() in ("DUMP", "DELETE", "RUN_CELLS") or l.split()[0].upper().endswith("_MIX"))))
                    if req:
                        fp = "reload after a failed call is not the fresh state: pending %s request of the failed input survives the load" % "+".join(req)
                    else:
                        fp = "reload after a failed call is not the fresh state: %s" % ",".join(chans[:6])
                    problems.append((fp, what))
                else:
                    diags.append("C07 matter (call succeeded): " + what[:300])
        api(d, "DestroyIPhreeqc", phase="destroy ")
    except CallFailure as e:
        if e.ubsan_only:
            raise
        if e.kind == "hang":
            return {"problems": problems, "diagnostics": diags + ["hang: %s" % e.what], "not_completed": True, "outcome": "hang", "ops": 4, "script": "\n".join(getattr(d, "dead_log", [])) + "\n"}
        problems.append((e.fp, e.what))
        return {"problems": problems, "diagnostics": diags, "outcome": "abnormal-later:" + e.kind, "ops": 4, "script": "\n".join(getattr(d, "dead_log", [])) + "\n",
                "summary": {"fn": fn, "rc": rc, "abnormal": e.kind}}
    outcome = core.sha(json.dumps([fn, rc, ne, norm_msg(err.split("\n", 2)[1] if err.startswith("\n") and err.count("\n") > 1 else err.split("\n", 1)[0]), n_errors(warn) + warn.count("WARNING"), rc2, chans]))
    return {"problems": problems, "diagnostics": diags, "ops": ops, "script": d.script(), "outcome": ("F:" if rc else "S:") + outcome,
            "summary": {"fn": fn, "rc": rc, "errors": ne, "warnings": warn.count("WARNING:"), "first_error": next((l[:120] for l in err.splitlines() if l.startswith("ERROR:")), None),
                        "rc_after_accepted_db": rc2, "reload": "fresh" if chans == [] else chans}}


def run_case(case):
    variant = case.get("variant", "san")
    extra_diag = []
    try:
        res = execute(variant, case)
    except CallFailure as e:
        # UBSan-only report (compiled -fno-sanitize-recover, so the process is gone): a diagnostic; the case is
        # completed on the uninstrumented build to see whether a real fault follows and to finish the oracle
        extra_diag.append("UBSan report / assert() of the instrumented build (diagnostic, not a crash in the statement's sense; case finished on the NDEBUG `rel` build): %s" % (e.fp,))
        try:
            res = execute("rel", case)
            res["outcome"] = "ubsan+" + res.get("outcome", "")
            # the report of the instrumented build names the site of a fault that the uninstrumented build then shows
            site = e.fp.split(": ", 1)[1] if ": " in (e.fp or "") else str(e.fp)
            res["problems"] = [("%s, after %s" % (fp, site), "%s\non the sanitizer build the same case stops with: %s" % (what, e.what)) if fp.startswith(("crash in", "exception escapes", "process exit")) else (fp, what)
                               for fp, what in res["problems"]]
        except CallFailure as e2:
            # the report of the instrumented build names the site of the fault that the uninstrumented build then shows
            site = e.fp.split(": ", 1)[1] if ": " in (e.fp or "") else e.fp
            res = {"problems": [("%s, after %s" % (e2.fp, site), "%s\non the sanitizer build the same case stops with: %s" % (e2.what, e.what))], "diagnostics": [], "outcome": "abnormal", "ops": 3,
                   "script": "\n".join(getattr(get_drv("rel"), "dead_log", [])) + "\n"}
    seen, uniq = set(), []
    for p in res["problems"]:
        if p[0] not in seen:
            seen.add(p[0])
            uniq.append(p)
    res["problems"] = uniq
    res["diagnostics"] = extra_diag + res.get("diagnostics", [])
    res["case"] = case
    res["states"] = [core.sha(json.dumps(case, sort_keys=True))]
    res["sample"] = {"case": case, "observed": res.pop("summary", None)}
    if os.environ.get("C08_LOG"):             # calibration aid only: one line per executed case
        with open(os.environ["C08_LOG"], "a") as f:
            f.write(json.dumps({"case": case, "outcome": res.get("outcome"), "problems": [p[0] for p in res["problems"]], "diag": [x[:200] for x in res["diagnostics"]]}) + "\n")
    return res


# ------------------------------------------------------------------------------------------ enumeration
def d0_cases(vias=("str", "file", "acc")):
    return [{"k": "d0", "base": b, "via": v} for v in vias for b in ["prelude"] + G.BASES]


def d1_cases(bases, via="str"):
    out = []
    for b in bases:
        for e in G.d1_edits(G.base_text(b)):
            out.append({"k": "d1", "base": b, "e": e, "via": via})
    return out


def d2_cases(bases, max_tokens):
    out = []
    for b in bases:
        for e1, e2 in G.d2_pairs(G.base_text(b), max_tokens):
            out.append({"k": "d2", "base": b, "e1": e1, "e2": e2})
    return out


def ent_cases(full=True):
    """quick: the COPY <kind> 1 <target> family only for kind solution and cell (a negative target costs seconds per
    case: unbounded allocation up to the memory fence)"""
    return [{"k": "ent", "i": i, "t": t[0]} for i, t in enumerate(G.entity_texts())
            if full or not (t[0].startswith("COPY ") and t[0].split()[2] == "1" and t[0].split()[1] not in ("solution", "cell"))]


def gram_cases():
    return [{"k": "gram", "i": i, "t": t[0]} for i, t in enumerate(G.grammar_texts(G.GRAM_ARGS))]


def basic_cases(stride=1):
    return [{"k": "basic", "h": h, "p": p, "n": n} for h, p, n in G.basic_truncations() if n % stride == 0]


LONG_N = [4095, 4096, 4097, 8200]      # around the initial buffer size and beyond its first doubling


def long_cases(bases, sizes, hows=("comment", "blanks", "token", "lead"), vias=("str", "file")):
    out = []
    for b in bases:
        text = G.base_text(b) if b != "minidb" else G.read("minidb.dat")
        for i, l in enumerate(G.lines_of(text)):
            if not l.strip():
                continue
            for how in hows:
                for n in sizes:
                    for via in vias:
                        out.append({"k": "long", "base": b, "line": i, "how": how, "n": n, "via": via})
    return out


def tiny_cases(maxlen):
    return [{"k": "tiny", "s": s, "as": a} for a in ("str", "db", "runfile-name", "loaddb-name") for s in G.tiny_strings(maxlen)]


def fault_cases():
    out = []
    for sink in SINKS:
        for name in BADNAMES:
            for on in (1, 0):
                for good in (1, 0):
                    out.append({"k": "fault", "f": "sink", "sink": sink, "name": name, "on": on, "good": good})
    for name in BADNAMES:
        for on in (1, 0):
            out.append({"k": "fault", "f": "insel", "name": name, "on": on})
    for name in INFILES:
        out.append({"k": "fault", "f": "runfile", "name": name})
        out.append({"k": "fault", "f": "loaddb", "name": name})
        out.append({"k": "fault", "f": "include", "name": name})
        out.append({"k": "fault", "f": "dbinclude", "name": name})
    out.append({"k": "fault", "f": "nodb"})
    out.append({"k": "fault", "f": "components", "name": "badphase"})
    out.append({"k": "fault", "f": "components", "name": "longelement"})
    return out


def db_cases(tier):
    out = [{"k": "db", "db": "minidb.dat", "via": v} for v in ("str", "file")]
    text = G.read("minidb.dat")
    if tier == "quick":
        ls = G.lines_of(text)
        out += [{"k": "db", "db": "minidb.dat", "e": ["dl", i], "via": "str"} for i in range(len(ls))]
        out += [{"k": "db", "db": "minidb.dat", "e": ["tl", i], "via": "file"} for i in range(len(ls) - 1)]
    else:
        for e in G.d1_edits(text):
            out.append({"k": "db", "db": "minidb.dat", "e": e, "via": "str"})
        for e in G.d1_edits(text, dict_idx=[]):
            out.append({"k": "db", "db": "minidb.dat", "e": e, "via": "file"})
        big = open(DB, encoding="latin-1", newline="").read()
        n = len(G.lines_of(big))
        out += [{"k": "db", "db": "phreeqc.dat", "via": "str"}]
        out += [{"k": "db", "db": "phreeqc.dat", "e": ["dl", i], "via": "str"} for i in range(n)]
        out += [{"k": "db", "db": "phreeqc.dat", "cut": c, "via": "file"} for c in range(0, len(big), 997)]
    return out


EXAMPLES = ["ex1", "ex2", "ex3", "ex4", "ex5", "ex6", "ex7", "ex8", "ex9", "ex10", "ex14", "ex16", "ex17", "ex18", "ex19"]


def example_cases():
    out = []
    for name in EXAMPLES:
        p = os.path.join(EXDIR, name)
        if not os.path.exists(p):
            continue
        out.append({"k": "ex", "name": name})
        n = len(G.lines_of(open(p, encoding="latin-1", newline="").read()))
        out += [{"k": "ex", "name": name, "e": ["dl", i]} for i in range(n)]
    return out


def bounds(tier):
    if tier == "quick":
        return [
            ("D0: %d valid base inputs x {RunString, RunFile, RunAccumulated}" % (len(G.BASES) + 1), d0_cases(), 4),
            ("file faults: unopenable/unwritable sinks x switch x good/bad input; missing/dir/empty/binary input, database and include files", fault_cases(), 4),
            ("undefined entity numbers: USE/SAVE/COPY/DELETE/DUMP/RUN_CELLS/MIX x kind x %s (COPY targets: solution and cell only)" % G.ENT_NUMS, ent_cases(False), 4),
            ("tiny strings: every string of length <= 2 over %r as input text, database text, RunFile name, LoadDatabase name" % G.TINY_ALPHABET, tiny_cases(2), 8),
            ("database text: mini database, every line deleted (string) / truncated after every line (file)", db_cases("quick"), 4),
            ("truncated BASIC: every prefix of program 1 in USER_PRINT and CALCULATE_VALUES", [c for c in basic_cases() if c["p"] == 0 and c["h"] in ("user_print", "calc")], 8),
            ("truncated BASIC with the file sinks on: every prefix of program 1 in USER_PUNCH", [dict(c, files=1) for c in basic_cases() if c["p"] == 0 and c["h"] == "user_punch"], 8),
            ("long lines: every line of the base input sol and of the mini database x {trailing comment, trailing blanks, extra long token, leading blanks} x total length {4096, 8200} x {string, file}",
             long_cases(["sol", "minidb"], [4096, 8200]), 8),
            ("D1: every single deviation of the base inputs %s" % G.QUICK_D1, d1_cases(G.QUICK_D1), 8),
        ]
    return [
        ("D0: %d valid base inputs x {RunString, RunFile, RunAccumulated}" % (len(G.BASES) + 1), d0_cases(), 4),
        ("file faults: unopenable/unwritable sinks x switch x good/bad input; missing/dir/empty/binary input, database and include files", fault_cases(), 4),
        ("undefined entity numbers: USE/SAVE/COPY/DELETE/DUMP/RUN_CELLS/MIX x kind x %s" % G.ENT_NUMS, ent_cases(), 8),
        ("tiny strings: every string of length <= 3 over %r as input text and database text, of length <= 2 as RunFile / LoadDatabase name" % G.TINY_ALPHABET, [c for c in tiny_cases(3) if len(c["s"]) <= 2 or c["as"] in ("str", "db")], 16),
        ("grammar blocks: every keyword x header variant, every (keyword, option) x argument in %r" % G.GRAM_ARGS, gram_cases(), 16),
        ("truncated BASIC: every prefix of %d programs in 4 hosts" % len(G.BASIC_PROGRAMS), basic_cases(), 16),
        ("truncated BASIC with the file sinks on: every prefix of %d programs in USER_PUNCH and RATES" % len(G.BASIC_PROGRAMS), [dict(c, files=1) for c in basic_cases() if c["h"] in ("user_punch", "rates")], 16),
        ("long lines: every line of the base inputs sol, eq, kinq, out, basfn and of the mini database x {trailing comment, trailing blanks, extra long token, leading blanks} x total length %s x {string, file}" % LONG_N,
         long_cases(["sol", "eq", "kinq", "out", "basfn", "minidb"], LONG_N), 16),
        ("D1: every single deviation of all %d base inputs (RunString)" % len(G.BASES), d1_cases(G.BASES), 16),
        ("D1 via RunFile: every line deletion and every truncation after a line of all base inputs", [dict(c, via="file") for c in d1_cases(G.BASES) if c["e"][0] in ("dl", "tl")], 16),
        ("database text D1: every single deviation of the mini database (string; file without replacements); phreeqc.dat every line deleted, truncated every 997 bytes", db_cases("thorough"), 8),
        ("shipped examples %s: whole and with every line deleted" % ",".join(EXAMPLES), example_cases(), 4),
        ("D2: all pairs of token edits (deletion, %r) within one keyword block of <= 6 tokens, all base inputs" % [G.DICT[i] for i in G.DICT_SMALL], d2_cases(G.BASES, 6), 32),
    ]


class Ev(core.Evidence):
    """Evidence with per-class counters (outcome keys carry the class) and one verbatim sample per case family."""

    def __init__(self, prop, tier):
        core.Evidence.__init__(self, prop, tier)
        self.n_fail = self.n_ok = self.n_other = self.n_ubsan = 0
        self.kinds = {}

    def outcome(self, key):
        if key.startswith("ubsan+"):
            self.n_ubsan += 1
            key = key[6:]
        if key.startswith("F:"):
            self.n_fail += 1
        elif key.startswith("S:"):
            self.n_ok += 1
        else:
            self.n_other += 1
        core.Evidence.outcome(self, key)

    def sample(self, s, limit=40):
        c = s["case"]
        k = c["k"] + ":" + str(c.get("f", c.get("via", c.get("as", "")))) + (":" + c["e"][0] if c.get("e") else "")
        n = self.kinds.get(k, 0)
        self.kinds[k] = n + 1
        if n == 0 and len(self.samples) < limit:
            if len(json.dumps(s)) < 1500:
                self.samples.append(s)


def run(tier):
    global CALL_TIMEOUT
    if tier == "quick":
        CALL_TIMEOUT = 12.0     # a call of the quick lattice takes milliseconds; a deviant rate or step list that integrates for minutes is "not completed"
    ev = Ev(PROP, tier)
    findings = core.Findings(PROP)
    ev.assumptions = [
        "no constant of the implementation enters the oracle; the relations are: the call returns (no sanitizer report, signal, exit, abort, escaping exception); rc != 0 <=> the error string holds a line starting with 'ERROR:' (the engine's documented prefix for error messages); marker texts recorded before the call are absent afterwards; probe after LoadDatabase == probe on a brand-new instance (bitwise, time banner and instance id in default names masked)",
        "error recording is enabled (SetErrorOn(1), SetErrorStringOn(1)); output, log, dump and selected-output string sinks are on, file sinks off except in the file-fault cases",
        "UBSan-only reports are diagnostics (brief): the case is then completed on the uninstrumented `rel` build, where a following real fault would show as a signal",
        "a call that does not return within %.0f s is counted as not completed (hang is not in the statement's list) and listed in the diagnostics" % CALL_TIMEOUT,
        "keyword and option names of the alphabet (data/c08/options.json, mc/oracles/c08_gen.py KEYWORDS) were copied from the engine's option tables; they shape the enumeration only, never the verdict",
        "text is passed as a C string: a NUL byte ends RunString/LoadDatabaseString text (NUL bytes reach the parser only through files: binary.in, nul.in)",
        "the precondition of the statement (no failed call since the last successful load) is kept by construction: every case starts from a new instance, a successful load and one successful call",
    ]
    build.ensure("san")
    build.ensure("rel")
    pool = core.Pool()
    dl = core.Deadline(float(os.environ.get("C08_DEADLINE", 240 if tier == "quick" else 1750)))
    total = 0
    for name, cs, chunk in bounds(tier):
        if dl.passed():
            ev.bound(name, False, cases=len(cs))
            continue
        n0, nc0 = ev.traces, ev.not_completed
        done = core.explore_cases(cs, run_case, ev, findings, pool, chunksize=chunk, deadline=dl)
        ev.bound(name, done, cases=len(cs), executed=ev.traces - n0, not_completed=ev.not_completed - nc0)
        total += len(cs)
    pool.close()
    ev.extra["lattice_points"] = total
    ev.extra["completed_runs"] = ev.traces - ev.not_completed
    ev.extra["calls_returning_nonzero"] = ev.n_fail
    ev.extra["calls_returning_zero"] = ev.n_ok
    ev.extra["calls_not_returning_normally_or_hanging"] = ev.n_other
    ev.extra["cases_finished_on_rel_after_ubsan_report"] = ev.n_ubsan
    ev.extra["cases_per_family"] = ev.kinds
    ev.extra["alphabet"] = {"replacement_dictionary": [repr(x if len(x) < 20 else x[:5] + "...x300") for x in G.DICT], "base_inputs": G.BASES,
                            "tiny_alphabet": [repr(c) for c in G.TINY_ALPHABET], "entity_numbers": G.ENT_NUMS, "bad_sink_names": sorted(BADNAMES), "bad_input_files": sorted(INFILES)}
    # vacuity guards
    if ev.traces > 200 and (ev.n_fail < 0.1 * ev.traces or ev.n_ok < 0.05 * ev.traces or len(ev.outcomes) < 50):
        raise SystemExit("C08 harness error: implausible outcome distribution failed=%d ok=%d distinct=%d of %d" % (ev.n_fail, ev.n_ok, len(ev.outcomes), ev.traces))
    if ev.not_completed > 0.02 * max(1, ev.traces):
        raise SystemExit("C08 harness error: %d of %d cases not completed" % (ev.not_completed, ev.traces))
    return core.finish(ev, findings)


def replay(path):
    return core.replay_main(PROP, path, run_case)
