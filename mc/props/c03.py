"""C03  Reactant assemblages end in a valid heterogeneous equilibrium state.

Shape L (+ the H states of C02): complete lattices of input shapes, every point run on the real library, every reported
reaction row judged by mc/oracles/c03_state.py (relations written from the manual; no engine source).

Parts (each bound is completed or declared not completed; nothing is sampled):
  pp    solutions x temperatures x every subset of a 9-phase list of phreeqc.dat (8 minerals + CO2(g) as a participant)
        x per phase target SI {0,-1,+0.5} x initial moles {0,1e-4,1} x restriction none | dissolve_only | precipitate_only |
        force_equality on one position of the subset.
          quick   : size 1 (6 solutions), size 2 (4 solutions), 25 C                                   72 k points
          thorough: size 1 and 2 on 6 solutions x {25,10,80} C; size 3 on 3 solutions at 25 C (amounts {0,1}^3 + all 1e-4);
                    size 4 on 2 solutions (targets {0,0.5}^4, 5 amount patterns, restriction on the first phase);
                    one subset of size 6 on 6 solutions x 3 temperatures                              932 k points
        (force_equality on every position only for single phases and, thorough, pairs at 25 C; elsewhere on the first
         phase: a force_equality phase that cannot reach its target fails after ~30 ms instead of 1.3 ms)
  ex    exchangers: by equilibration (1e-6, 0.01, 1 mol), explicit (Na; Na+Ca+K; Ca 1 eq), sites tied to calcite (also
        to calcite that vanishes) x 6 reactions (one of them: evaporate, SAVE, second simulation reacts again) x with and
        without calcite x 6 solutions x temperatures
  su    surfaces: explicit / equilibrated, no_edl / default / donnan / diffuse_layer, many sites, sites tied to Fe(OH)3(a)
  ss    solid solutions: ideal with 2 (carbonate, sulfate) and 3 components, binary non-ideal (Guggenheim: ex10's, regular,
        with a miscibility gap), two at once x 3 initial amounts x 5 reactions
  hist  the states reached by breadth-first exploration of C02's reaction-op alphabet (imported from c02.py: alphabet,
        op texts, initial cells): every reaction row of the last transition of every history is judged.  quick: any op
        (and 4 water/composition-changing ops followed by any op) on the cell that holds every reactant, attach op + any
        op on the plain cell; thorough: any two ops on the full cell, attach + attach + any op on the plain cell.

Only runs with return code 0 are judged (R2); a group of lattice points runs in one freshly loaded instance, after a
failed run the database is re-loaded; every candidate is re-run alone on a fresh instance (twice, new processes) before it
is reported; a candidate that only reproduces inside its group is reported with the group as the replay case.

Calibration on the unchanged tree (R5) - every mismatch class seen and what was done:
  * sites tied to a mineral that dissolved completely: 1e-20 mol of sites occupied against 0 defined -> oracle: a relative
    measure does not exist for 0 defined sites, the absolute reading of the statement's 1e-8 (mol) is used there.
  * an ideal component whose element is not in the system (SI undefined) holds a floor amount (1e-27 mol, x = 1e-23)
    -> oracle: a mole fraction below 1e-15 is 0 (resolution of "sum to one" in doubles); activity 0 = fraction 0.
  * MIX op in RUN_CELLS mode (hist): the simulation that defines MIX 1 first runs "mix 1 alone" - no reactant of the cell
    takes part - then the cell: the first row is not a state of the cell and is not judged.
  * dissolve_only / precipitate_only phases legitimately sit above / below their target when the restriction binds
    (that is what the manual says the options do): judged by the restricted relations of the oracle module.
  * the dump's -fraction_x of a non-ideal binary inside its miscibility gap is the gap-end composition, not moles/sum:
    statement only asks non-negative and sum to one; the difference is a diagnostic.
  * GENUINE (kept, narrow fingerprint "exchange site-balance master=X sites tied to a mineral: excess = sites per mole x
    1e-10 mol"): when the initial solution lacks an element of the mineral an exchanger is tied to, the exchanger ends
    with sites-per-mole x (moles of mineral + 1e-10): 1e-10 mol is what step.cpp add_pp_assemblage moves from the mineral
    into the solution to seed the missing element; relative error 1.4e-8 (7e-4 mol of sites) .. 6.5e-7 (1.5e-5 mol).
"""
import itertools
import os
import re

from .. import core, phr, drv
from ..oracles import c03_state as O
from ..oracles import phrq_db, raw
from . import c02

PROP = "C03"
DBNAME = "phreeqc.dat"

# ------------------------------------------------------------------------------------------------ alphabets
PHASES = ["Calcite", "Aragonite", "Dolomite", "Gypsum", "Anhydrite", "Halite", "Quartz", "Fe(OH)3(a)", "CO2(g)"]
GASES = {"CO2(g)"}
TARGETS = [0.0, -1.0, 0.5]
MOLES = [0.0, 1e-4, 1.0]
RESTR = ["d", "p", "f"]
SOLS = {
    "pure": " pH 7\n",
    "nacl": " pH 7\n Na 100\n Cl 100 charge\n",
    "hard": " pH 7.6\n Ca 2\n Mg 0.5\n Na 1\n K 0.1\n Alkalinity 4\n S(6) 0.5\n Si 0.2\n Cl 1 charge\n",
    "sea": " pH 8.22\n Ca 10.3\n Mg 53\n Na 469\n K 10.2\n S(6) 28.2\n Alkalinity 2.3\n Si 0.07\n Cl 546 charge\n",
    "amd": " pH 3\n Fe 2\n Ca 3\n Na 1\n S(6) 10 charge\n Cl 1\n",
    "brine": " pH 7\n Na 5500\n Cl 5500 charge\n Ca 10\n S(6) 10\n",
}
SOL_ORDER = ["hard", "pure", "nacl", "sea", "amd", "brine"]
QUICK_PAIR_SOLS = ["hard", "pure", "sea", "amd"]
TRI_SOLS = ["hard", "sea", "amd"]
QUAD_SOLS = ["hard", "sea"]
TEMPS = {"quick": [25.0], "thorough": [25.0, 10.0, 80.0]}
# the specific-ion-interaction databases run the same assemblage code through their own model drivers (model_pz /
# model_sit): minerals that both define, on the solutions whose elements both know
MODEL_DBS = {"pitzer.dat": ["Calcite", "Gypsum", "Anhydrite", "Halite", "Dolomite", "CO2(g)"],
             "sit.dat": ["Calcite", "Gypsum", "Anhydrite", "Halite", "Quartz", "CO2(g)"]}
MODEL_SOLS = ["pure", "nacl", "sea", "brine"]

REACTIONS = {
    "none": "",
    "nacl": "REACTION 1\n NaCl 1\n 10 mmol\n",
    "hcl": "REACTION 1\n HCl 1\n 1 2 mmol\n",
    "naoh": "REACTION 1\n NaOH 1\n 1 mmol\n",
    "cacl2": "REACTION 1\n CaCl2 1\n 5 mmol\n",
    # two simulations: water is removed, everything is saved, then the saved cell reacts again (both rows are judged)
    "evaporate-save-nacl": ("REACTION 1\n H2O -1\n 10 moles\n", "REACTION 1\n NaCl 1\n 1 mmol\n"),
}
EX_DEFS = {      # name -> (text, {master: moles of sites | ("phase", name, sites per mole)}, needs pp text or None)
    "equil-1e-2": (" X 0.01\n -equilibrate 1\n", {"X": 0.01}, None),
    "equil-1": (" X 1.0\n -equilibrate 1\n", {"X": 1.0}, None),
    "equil-1e-6": (" X 1e-6\n -equilibrate 1\n", {"X": 1e-6}, None),
    "explicit-na": (" NaX 0.01\n", {"X": 0.01}, None),
    "explicit-mix": (" NaX 0.01\n CaX2 0.002\n KX 0.001\n", {"X": 0.015}, None),
    "explicit-ca-big": (" CaX2 0.5\n", {"X": 1.0}, None),
    "tied-to-calcite": (" X Calcite equilibrium_phase 0.1\n -equilibrate 1\n", {"X": ("phase", "Calcite", 0.1)}, " Calcite 0 0.01\n"),
    "tied-to-calcite-vanishing": (" X Calcite equilibrium_phase 0.1\n -equilibrate 1\n", {"X": ("phase", "Calcite", 0.1)}, " Calcite 0 2e-4\n"),
}
EX_PP = {"none": None, "calcite": " Calcite 0 0.01\n"}
SU_DEFS = {
    "explicit-noedl": (" Hfo_wOH 0.001 600 1\n Hfo_sOH 0.00005\n -no_edl\n", {"Hfo_w": 0.001, "Hfo_s": 0.00005}, None),
    "explicit-ddl": (" Hfo_wOH 0.001 600 1\n Hfo_sOH 0.00005\n", {"Hfo_w": 0.001, "Hfo_s": 0.00005}, None),
    "equil-noedl": (" Hfo_w 0.001 600 1\n Hfo_s 0.00005\n -equilibrate 1\n -no_edl\n", {"Hfo_w": 0.001, "Hfo_s": 0.00005}, None),
    "equil-ddl": (" Hfo_w 0.001 600 1\n Hfo_s 0.00005\n -equilibrate 1\n", {"Hfo_w": 0.001, "Hfo_s": 0.00005}, None),
    "equil-donnan": (" Hfo_w 0.001 600 1\n Hfo_s 0.00005\n -equilibrate 1\n -donnan\n", {"Hfo_w": 0.001, "Hfo_s": 0.00005}, None),
    "equil-dl": (" Hfo_w 0.001 600 1\n Hfo_s 0.00005\n -equilibrate 1\n -diffuse_layer 1e-8\n", {"Hfo_w": 0.001, "Hfo_s": 0.00005}, None),
    "equil-big": (" Hfo_w 0.2 600 89\n Hfo_s 0.005\n -equilibrate 1\n", {"Hfo_w": 0.2, "Hfo_s": 0.005}, None),
    "tied-to-ferrihydrite": (" Hfo_w Fe(OH)3(a) equilibrium_phase 0.2 5.33e4\n Hfo_s Fe(OH)3(a) equilibrium_phase 0.005\n -equilibrate 1\n",
                             {"Hfo_w": ("phase", "Fe(OH)3(a)", 0.2), "Hfo_s": ("phase", "Fe(OH)3(a)", 0.005)}, " Fe(OH)3(a) 0 0.001\n"),
}
SS_EXTRA = " Sr 0.1\n Ba 0.01\n"       # added to every solution of the solid-solution part
SS_DEFS = {      # name -> list of (ss name, components, ideal, option text)
    "ideal2-CaSr": [("CaSrCO3", ["Calcite", "Strontianite"], True, "")],
    "ideal2-SrBa-sulfate": [("SrBaSO4", ["Celestite", "Barite"], True, "")],
    "ideal3-CaSrBa": [("CaSrBaCO3", ["Calcite", "Strontianite", "Witherite"], True, "")],
    "nonideal-ArSr": [("ArSr", ["Aragonite", "Strontianite"], False, " -Gugg_nondim 3.43 -1.82\n")],
    "nonideal-regular": [("CaSrReg", ["Calcite", "Strontianite"], False, " -Gugg_nondim 1.5 0\n")],
    "nonideal-gap": [("CaSrGap", ["Calcite", "Strontianite"], False, " -Gugg_nondim 3.0 0.5\n")],
    "two-ideal": [("CaSrCO3", ["Calcite", "Strontianite"], True, ""), ("SrBaSO4", ["Celestite", "Barite"], True, "")],
}
SS_GUGG = {"ArSr": (3.43, -1.82), "CaSrReg": (1.5, 0.0), "CaSrGap": (3.0, 0.5)}
SS_MOLES = {"zero": [0.0, 0.0, 0.0], "some": [1e-3, 1e-4, 1e-5], "one-only": [1e-3, 0.0, 0.0]}
SS_REACTIONS = {
    "none": "",
    "srcl2": "REACTION 1\n SrCl2 1\n 1 mmol\n",
    "na2co3": "REACTION 1\n Na2CO3 1\n 1 2 mmol\n",
    "hcl": "REACTION 1\n HCl 1\n 1 mmol\n",
    "bacl2+na2so4": "REACTION 1\n BaCl2 1\n Na2SO4 1\n 0.5 mmol\n",
}
SS_COMPS = ["Calcite", "Strontianite", "Witherite", "Aragonite", "Celestite", "Barite"]

_stoich = None


def stoich():
    global _stoich
    if _stoich is None:
        _stoich = O.Stoich(phrq_db.load(phr.dbpath(DBNAME)))
    return _stoich


def fmt(x):
    return repr(float(x))


# ------------------------------------------------------------------------------------------------ part pp
def restr_options(k, first_only=False, f_first_only=False):
    out = [None]
    for i in range(1 if first_only else k):
        for r in RESTR:
            if r == "f" and f_first_only and i > 0:
                continue
            out.append((r, i))
    return out


PATTERNS = [(0.0,), (1e-4,), (1.0,), (1.0, 0.0), (0.0, 1.0)]     # cyclic initial-moles patterns of the reduced schemes


def pp_points(k, scheme):
    """All (targets, moles, restriction) of a subset of size k.  restriction = None | (kind, index)."""
    if scheme in ("full", "full-f1"):   # every phase its own target and amount, restriction on every position
        tm = list(itertools.product(TARGETS, MOLES))       # ("-f1": force_equality on the first position only)
        for combo in itertools.product(tm, repeat=k):
            for r in restr_options(k, f_first_only=scheme.endswith("-f1")):
                yield tuple(c[0] for c in combo), tuple(c[1] for c in combo), r
    elif scheme == "tri":       # every phase its own target; amounts in {0,1}^k + all 1e-4; dissolve_only / precipitate_only
        ms = list(itertools.product([0.0, 1.0], repeat=k)) + [tuple([1e-4] * k)]      # on every position, force_equality on the first
        for t in itertools.product(TARGETS, repeat=k):
            for m in ms:
                for r in restr_options(k, f_first_only=True):
                    yield t, m, r
    elif scheme == "reduced":   # targets in {0,0.5}^k; five cyclic amount patterns; restriction on the first phase
        for t in itertools.product([0.0, 0.5], repeat=k):
            for pat in PATTERNS:
                m = tuple(pat[i % len(pat)] for i in range(k))
                for r in restr_options(k, True):
                    yield t, m, r
    else:
        raise RuntimeError(scheme)


def pp_text(sol, T, phases, pt, punch):
    t, m, r = pt
    lines = ["SOLUTION 1", " temp %s" % fmt(T), SOLS[sol].rstrip("\n"), "EQUILIBRIUM_PHASES 1"]
    for i, p in enumerate(phases):
        kind = r[0] if r is not None and r[1] == i else None
        lines.append(" %s %s %s%s" % (p, fmt(t[i]), fmt(m[i]), {"d": " dissolve_only", "p": " precipitate_only"}.get(kind, "")))
        if kind == "f":
            lines.append("  -force_equality true")
    return "\n".join(lines) + "\n" + punch + "END\n"


def pp_retarget_text(sol, T, phases, pt, punch):
    """The same assemblage twice on a stored solution: first with every target moved to the next value of TARGETS (1 mol
    each, no restriction), then - without any initial-solution calculation in between - with the point's own targets,
    amounts and restriction.  The second reaction row is the judged one."""
    t, m, r = pt
    t1 = tuple(TARGETS[(TARGETS.index(x) + 1) % len(TARGETS)] for x in t)
    first = pp_text(sol, T, phases, (t1, tuple(1.0 for _ in m), None), "")
    first = first[first.index("EQUILIBRIUM_PHASES 1"):]
    second = pp_text(sol, T, phases, pt, "")
    second = second[second.index("EQUILIBRIUM_PHASES 1"):]
    return ("SOLUTION 1\n temp %s\n%s\n%sEND\nUSE solution 1\n%sUSE solution 1\n%s" % (fmt(T), SOLS[sol].rstrip("\n"), punch, first, second))


STEP_TEMPS = {"up": [5.0, 25.0, 60.0, 90.0], "down": [90.0, 60.0, 25.0, 5.0]}


def pp_steps_points():
    """(target, moles, restriction kind, temperature direction, incremental) of the multi-step family"""
    for t in TARGETS:
        for m in (1e-4, 1.0):
            for kind in ("d", "p"):
                for direction in ("up", "down"):
                    for inc in (True, False):
                        yield (t, m, kind, direction, inc)


def pp_steps_text(sol, phase, pt, punch):
    t, m, kind, direction, inc = pt
    return ("SOLUTION 1\n temp 25\n%s\nEQUILIBRIUM_PHASES 1\n %s %s %s %s\nREACTION_TEMPERATURE 1\n %s\nINCREMENTAL_REACTIONS %s\n%sEND\n" % (
        SOLS[sol].rstrip("\n"), phase, fmt(t), fmt(m), {"d": "dissolve_only", "p": "precipitate_only"}[kind],
        " ".join(fmt(x) for x in STEP_TEMPS[direction]), "true" if inc else "false", punch))


def judge_pp_steps(rows, phase, pt):
    """Every step is a calculation of its own: with INCREMENTAL_REACTIONS it starts from the previous step's result,
    otherwise from the defined assemblage."""
    t, m, kind, direction, inc = pt
    j = O.RowJudge(stoich())
    if len(rows) != len(STEP_TEMPS[direction]):
        raise RuntimeError("expected %d reaction rows, got %d" % (len(STEP_TEMPS[direction]), len(rows)))
    start = m
    for row in rows:
        j.phase(row, phase, t, kind, [start])
        if inc:
            start = row.get(O.bname("m_", phase))
    return j


def react_rows(r, n=1):
    rows = r["sel"].get(n)
    if rows is None:
        raise RuntimeError("observable missing: no selected-output table %d" % n)
    return [x for x in rows if x.get("state") == "react"]


def judge_pp(rows, phases, pt):
    t, m, r = pt
    j = O.RowJudge(stoich())
    if len(rows) != 1:
        raise RuntimeError("expected one reaction row, got %d" % len(rows))
    for i, p in enumerate(phases):
        kind = r[0] if r is not None and r[1] == i else None
        j.phase(rows[0], p, t[i], kind, [m[i]], gas=p in GASES)
    return j


class Group:
    """Runs lattice points in one instance; after a failed run the database is re-loaded (fresh engine state)."""

    def __init__(self, db=None):
        self.db = db or DBNAME
        self.s = phr.Session(self.db)
        self.n = 0

    def run(self, text, strings=""):
        self.s.d.log = []
        try:
            r = self.s.run(text, strings=strings)
        except (drv.DrvDied, drv.DrvTimeout) as e:
            self.s = phr.Session(self.db)
            return {"rc": None, "err": "DRIVER DIED: %s %s" % (type(e).__name__, str(e)[:100]), "sel": {}, "death": True}
        self.n += 1
        if r["rc"] != 0:
            self.s.load()
        return r


def run_points(case, texts_and_judges):
    """Common body of the lattice parts.  texts_and_judges: iterable of (point id, input text, judge function(result) ->
    RowJudge, strings).  Returns the result dict of the explorer."""
    single = case.get("point") is not None
    g = Group(case.get("db"))
    out = {"case": case, "problems": [], "ops": 0, "points": 0, "completed": 0, "nc": 0, "outcomes": set(), "diagnostics": [],
           "nc_samples": [], "worst": {"si": 0.0, "site": 0.0, "act": 0.0}, "samples": [], "deaths": 0}
    cand = {}
    for pid, text, judge, strings in texts_and_judges:
        r = g.run(text, strings)
        out["ops"] += 1
        out["points"] += 1
        if r["rc"] != 0:
            out["nc"] += 1
            if r.get("death"):
                out["deaths"] += 1
                out["diagnostics"].append("driver death counted as not completed: %s point %r: %s" % (case, pid, r["err"]))
            if len(out["nc_samples"]) < 1:
                out["nc_samples"].append({"point": pid, "error": (r.get("err") or "")[:200]})
            continue
        out["completed"] += 1
        j = judge(r)
        out["outcomes"].add(j.outcome())
        for k in out["worst"]:
            out["worst"][k] = max(out["worst"][k], j.worst[k])
        for d in j.diags[:2]:
            if len(out["diagnostics"]) < 3:
                out["diagnostics"].append("%s point %r: %s" % (case_name(case), pid, d))
        if len(out["samples"]) < 1 and j.codes and not j.problems:
            out["samples"].append({"case": case_name(case), "point": pid, "outcome": j.outcome(), "input": text if len(text) < 1500 else text[:1500] + "..."})
        for fp, what in j.problems:
            if fp not in cand:
                cand[fp] = (pid, what, text)
    if single:
        for fp, (pid, what, text) in cand.items():
            out["problems"].append((fp, "%s\ncase %s point %r" % (what, case_name(case), pid)))
        out["script"] = g.s.d.script()
    else:
        # every candidate of the group is handed back as a single-point case; the explorer re-runs it alone (twice, fresh
        # processes).  If it does not reproduce alone the group itself is the replay case.
        for fp, (pid, what, text) in cand.items():
            pc = dict(case)
            pc["point"] = pid
            out["problems"].append((fp, "%s\ncase %s point %r" % (what, case_name(case), pid), pc))
    out["outcomes"] = sorted(out["outcomes"])
    return out


def case_name(case):
    return " ".join("%s=%s" % (k, case[k]) for k in sorted(case) if k != "point")


def run_pp(case):
    phases = case["phases"]
    punch = O.punch_block(1, phases)
    pts = [tuple(tuple(x) if isinstance(x, list) else x for x in case["point"])] if case.get("point") is not None else ([] if case["scheme"] == "steps" else pp_points(len(phases), "full-f1" if case["scheme"] == "retarget" else case["scheme"]))

    if case["scheme"] == "steps":
        spts = [tuple(case["point"])] if case.get("point") is not None else pp_steps_points()

        def gen_steps():
            for pt in spts:
                yield (list(pt), pp_steps_text(case["sol"], phases[0], pt, punch), (lambda r, pt=pt: judge_pp_steps(react_rows(r), phases[0], pt)), "")
        return run_points(case, gen_steps())

    def gen():
        for pt in pts:
            if case["scheme"] == "retarget":
                yield (list(pt), pp_retarget_text(case["sol"], case["T"], phases, pt, punch), (lambda r, pt=pt: judge_pp(react_rows(r)[-1:], phases, pt)), "")
            else:
                yield (list(pt), pp_text(case["sol"], case["T"], phases, pt, punch), (lambda r, pt=pt: judge_pp(react_rows(r), phases, pt)), "")
    return run_points(case, gen())


# ------------------------------------------------------------------------------------------------ parts ex / su
def sites_text(kind, sol, T, dname, rname, ppname):
    defs = EX_DEFS if kind == "ex" else SU_DEFS
    text, sites, needpp = defs[dname]
    pp = needpp or EX_PP.get(ppname)
    masters = sorted(sites)
    phases = [l.split()[0] for l in (pp or "").splitlines() if l.strip()]
    lines = ["SOLUTION 1", " temp %s" % fmt(T), SOLS[sol].rstrip("\n"), "EXCHANGE 1" if kind == "ex" else "SURFACE 1", text.rstrip("\n")]
    if pp:
        lines += ["EQUILIBRIUM_PHASES 1", pp.rstrip("\n")]
    rx = REACTIONS[rname]
    kw = "exchange" if kind == "ex" else "surface"
    if isinstance(rx, tuple):
        lines.append(rx[0].rstrip("\n"))
        lines += ["SAVE solution 1", "SAVE %s 1" % kw] + (["SAVE equilibrium_phases 1"] if pp else [])
        tail = "\n".join(["USE solution 1", "USE %s 1" % kw] + (["USE equilibrium_phases 1"] if pp else []) + [rx[1].rstrip("\n"), "END"]) + "\n"
    else:
        if rx:
            lines.append(rx.rstrip("\n"))
        tail = ""
    return "\n".join(lines) + "\n" + O.punch_block(1, phases, (), masters) + "END\n" + tail, sites, phases


def judge_sites(kind, r, dname, sites, phases):
    rows = react_rows(r)
    if not rows:
        raise RuntimeError("no reaction row")
    j = O.RowJudge(stoich())
    for row in rows:
        for p in phases:
            j.phase(row, p, 0.0, None, [0.0])
        for master, exp in sorted(sites.items()):
            ratio = None
            if isinstance(exp, tuple):
                m = row.get(O.bname("m_", exp[1]))
                if not O.fnum(m):
                    raise RuntimeError("observable missing: EQUI(%s)" % exp[1])
                ratio = exp[2]
                exp = ratio * m
            j.sites(row, master, exp, kind, dname, ratio)
    return j


def run_sites(case):
    kind = case["part"]
    defs = EX_DEFS if kind == "ex" else SU_DEFS
    if case.get("point") is not None:
        pts = [tuple(case["point"])]
    else:
        pts = [(d, r, p) for d in defs for r in REACTIONS for p in EX_PP if not (defs[d][2] and p != "none")]

    def gen():
        for d, rn, p in pts:
            text, sites, phases = sites_text(kind, case["sol"], case["T"], d, rn, p)
            yield ([d, rn, p], text, (lambda r, d=d, sites=sites, phases=phases: judge_sites(kind, r, d, sites, phases)), "")
    return run_points(case, gen())


# ------------------------------------------------------------------------------------------------ part ss
def ss_text(sol, T, dname, mname, rname):
    lines = ["SOLUTION 1", " temp %s" % fmt(T), SOLS[sol].rstrip("\n"), SS_EXTRA.rstrip("\n"), "SOLID_SOLUTIONS 1"]
    comps = []
    for name, cs, ideal, opt in SS_DEFS[dname]:
        lines.append(" " + name)
        for i, c in enumerate(cs):
            lines.append("  %s %s %s" % ("-comp" if ideal else "-comp%d" % (i + 1), c, fmt(SS_MOLES[mname][i])))
            if c not in comps:
                comps.append(c)
        if opt:
            lines.append(" " + opt.strip())
    if SS_REACTIONS[rname]:
        lines.append(SS_REACTIONS[rname].rstrip("\n"))
    lines += ["SAVE solid_solutions 1"]
    return "\n".join(lines) + "\n" + O.punch_block(1, (), comps) + "DUMP\n -solid_solutions 1\nEND\n"


def dump_fractions(dump):
    out = {}
    b = raw.parse(dump or "").get(("SOLID_SOLUTIONS_RAW", 1))
    if b is None:
        return None
    for name, ss in b.get("solid_solution", {}).items():
        if name == "_order":
            continue
        out[name] = {c: float(v["fraction_x"]) for c, v in ss.get("component", {}).items() if c != "_order" and "fraction_x" in v}
    return out


def judge_ss(r, dname):
    rows = react_rows(r)
    if not rows:
        raise RuntimeError("no reaction row")
    fr = dump_fractions(r.get("dump"))
    if fr is None:
        raise RuntimeError("observable missing: SOLID_SOLUTIONS_RAW not in the dump")
    j = O.RowJudge(stoich())
    for k, row in enumerate(rows):
        last = k == len(rows) - 1
        for name, cs, ideal, opt in SS_DEFS[dname]:
            j.solid_solution(row, name, cs, ideal, fr.get(name) if last else None)
            if not ideal and last:
                ns = [row[O.bname("ss_", c)] for c in cs]
                fx = fr.get(name, {})
                # diagnostic only, and only outside the miscibility gap (inside it the program reports the gap-end fractions)
                if sum(ns) > 0 and all(n > 1e-9 * sum(ns) for n in ns) and all(abs(fx.get(c, -1.0) - n / sum(ns)) < 1e-6 for c, n in zip(cs, ns)):
                    x1, x2 = ns[0] / sum(ns), ns[1] / sum(ns)
                    l1, l2 = O.guggenheim_log10_lambda(x1, x2, *SS_GUGG[name])
                    import math
                    d1 = row[O.bname("si_", cs[0])] - (math.log10(x1) + l1)
                    d2 = row[O.bname("si_", cs[1])] - (math.log10(x2) + l2)
                    if max(abs(d1), abs(d2)) > 1e-5:
                        j.diags.append("non-ideal %s: SI - log10(lambda x) = %.3g, %.3g (Guggenheim two-term, textbook) at x1 = %.6g" % (name, d1, d2, x1))
    return j


def run_ss(case):
    if case.get("point") is not None:
        pts = [tuple(case["point"])]
    else:
        pts = [(d, m, rn) for d in SS_DEFS for m in SS_MOLES for rn in SS_REACTIONS]

    def gen():
        for d, m, rn in pts:
            yield ([d, m, rn], ss_text(case["sol"], case["T"], d, m, rn), (lambda r, d=d: judge_ss(r, d)), "d")
    return run_points(case, gen())


# ------------------------------------------------------------------------------------------------ part hist (C02's states)
def parse_attach(op):
    """What an attach op of C02's alphabet defines, read from its input text."""
    kind, text = c02.ATTACH[op]
    lines = [l.strip() for l in text.splitlines()[1:] if l.strip()]
    if kind == "pp":
        out = []
        for l in lines:
            t = l.split()
            restr = None
            if len(t) > 3:
                restr = "d" if t[3].lower().startswith("d") else "p"
            out.append({"name": t[0], "target": float(t[1]), "moles": float(t[2]), "restr": restr})
        return kind, out
    if kind == "ex":
        cap = 0.0
        for l in lines:
            if l.startswith("-"):
                continue
            t = l.split()
            m = re.match(r"^[A-Za-z0-9]*?X(\d*)$", t[0])
            cap += float(t[1]) * (int(m.group(1)) if m.group(1) else 1)
        return kind, {"X": cap, "def": op}
    if kind == "su":
        sites = {}
        for l in lines:
            if l.startswith("-"):
                continue
            t = l.split()
            m = re.match(r"^(Hfo_[ws])", t[0])
            sites[m.group(1)] = sites.get(m.group(1), 0.0) + float(t[1])
        sites["def"] = op
        return kind, sites
    if kind == "ss":
        name = lines[0]
        comps = [l.split()[1] for l in lines[1:] if l.startswith("-comp")]
        ideal = not any(l.lower().startswith("-gugg") for l in lines)
        return kind, {"name": name, "comps": comps, "ideal": ideal}
    return kind, None


HIST_PHASES = sorted(set(p["name"] for op in c02.ATTACH if c02.ATTACH[op][0] == "pp" for p in parse_attach(op)[1]))
HIST_SS = sorted(set(c for op in c02.ATTACH if c02.ATTACH[op][0] == "ss" for c in parse_attach(op)[1]["comps"]))
FULL_FIRST = ["rx:H2O-:1", "rx:HCl:3cum", "mix:half", "temp:60"]     # quick tier: first ops of the depth-2 histories on the full cell
HIST_MASTERS = ["X", "Hfo_w", "Hfo_s"]
HIST_PUNCH = O.punch_block(2, HIST_PHASES, HIST_SS, HIST_MASTERS)


def hist_judge(rows, defs, starts, incremental):
    """rows: reaction rows of the judged transition; defs: current definitions per kind; starts: moles of the phases of
    the assemblage before the transition."""
    j = O.RowJudge(stoich())
    prev = dict(starts)
    for row in rows:
        if "pp" in defs:
            for p in defs["pp"]:
                cands = [starts[p["name"]]] + ([prev[p["name"]]] if prev[p["name"]] != starts[p["name"]] else [])
                j.phase(row, p["name"], p["target"], p["restr"], cands, gas=p["name"] in ("CO2(g)",))
                prev[p["name"]] = row[O.bname("m_", p["name"])]
        if "ex" in defs:
            j.sites(row, "X", defs["ex"]["X"], "ex", defs["ex"]["def"])
        if "su" in defs:
            for mname in ("Hfo_w", "Hfo_s"):
                j.sites(row, mname, defs["su"][mname], "surf", defs["su"]["def"].replace("su:", ""))
        if "ss" in defs:
            j.solid_solution(row, defs["ss"]["name"], defs["ss"]["comps"], defs["ss"]["ideal"])
    return j


def run_hist(case):
    init, mode, ops = case["init"], case["mode"], case["ops"]
    out = {"case": case, "problems": [], "ops": 0, "points": 1, "completed": 0, "nc": 0, "outcomes": [], "diagnostics": [], "nc_samples": [],
           "worst": {"si": 0.0, "site": 0.0, "act": 0.0}, "samples": [], "deaths": 0}
    try:
        s = phr.Session(DBNAME)
        r = s.run(HIST_PUNCH + c02.INIT[init] + "DUMP\n -all\nEND\n", strings="d")
        out["ops"] += 1
        if r["rc"] != 0:
            raise RuntimeError("initial simulation fails: %s" % r["err"][:300])
        present, kin = set(c02.INIT_MODEL[init][0]), c02.INIT_MODEL[init][1]
        defs, cur = {}, {}
        if init == "full":
            for o in c02.FULL:
                k, d = parse_attach(o)
                if d is not None:
                    defs[k] = d
                    if k == "pp":
                        cur = {p["name"]: p["moles"] for p in d}
        rows, spec, dump, starts = [], None, r["dump"], {}
        for i, op in enumerate(ops):
            if op in c02.ATTACH:
                k, d = parse_attach(op)
                present.add(c02.ATTACH[op][0])
                if c02.ATTACH[op][0] == "ki":
                    kin = op
                if d is not None:
                    defs[k] = d
                    if k == "pp":
                        cur = {p["name"]: p["moles"] for p in d}
            dtext, step, spec = c02.op_texts(op, mode, present, kin)
            if dtext is not None:
                r = s.run(dtext + "END\n")
                out["ops"] += 1
                if r["rc"] != 0:
                    out["nc"] = 1
                    out["nc_samples"].append({"point": ops, "error": r["err"][:200]})
                    return out
            starts = dict(cur)
            r = s.run(step, strings="d")
            out["ops"] += 1
            if r["rc"] != 0:
                out["nc"] = 1
                out["nc_samples"].append({"point": ops, "error": r["err"][:200]})
                return out
            rows = react_rows(r, 2)
            dump = r["dump"]
            if mode == "cells" and spec["mix"] is not None:
                # a simulation that defines MIX 1 first runs its own batch reaction "mix 1 alone" (no reactant of the cell
                # takes part: nothing to judge), then RUN_CELLS runs the cell
                if len(rows) < 2:
                    raise RuntimeError("expected the simulation's own mix row and the cell's row after op %s" % op)
                rows = rows[1:]
            if not rows:
                raise RuntimeError("no reaction row of user number 2 after op %s" % op)
            if "pp" in defs:
                cur = {p["name"]: rows[-1][O.bname("m_", p["name"])] for p in defs["pp"]}
    except (drv.DrvDied, drv.DrvTimeout) as e:
        out["nc"] = 1
        out["deaths"] = 1
        out["diagnostics"].append("driver death counted as not completed: %s: %s %s" % (case, type(e).__name__, str(e)[:100]))
        return out
    out["completed"] = 1
    out["key"] = core.sha(raw.canonical(dump, 12))
    if ops and defs:
        j = hist_judge(rows, defs, starts, spec["incremental"])
        out["outcomes"] = ["%s|%s" % ("+".join(sorted(defs)), j.outcome())]
        out["worst"] = j.worst
        out["diagnostics"] += ["%s: %s" % (case_name(case), d) for d in j.diags[:2]]
        if not j.problems:
            out["samples"].append({"case": case_name(case), "outcome": j.outcome()})
        seen = set()
        for fp, what in j.problems:
            fp = "hist " + fp
            if fp not in seen:
                seen.add(fp)
                out["problems"].append((fp, "%s\nhistory: init=%s mode=%s ops=%s (last transition judged, %d reaction rows)" % (what, init, mode, " ".join(ops), len(rows))))
        if out["problems"]:
            out["script"] = s.d.script()
    return out


# ------------------------------------------------------------------------------------------------ dispatcher
def run_case(case):
    part = case["part"]
    if part == "pp":
        return run_pp(case)
    if part in ("ex", "su"):
        return run_sites(case)
    if part == "ss":
        return run_ss(case)
    if part == "hist":
        return run_hist(case)
    raise RuntimeError("unknown part %r" % part)


# ------------------------------------------------------------------------------------------------ exploration
class Stats:
    def __init__(self):
        self.points = self.completed = self.nc = self.deaths = 0
        self.worst = {"si": 0.0, "site": 0.0, "act": 0.0}
        self.nc_samples = []
        self.by_part = {}
        self.reported = set()


def explore(cases, ev, findings, pool, stats, part, chunksize=1):
    """Runs the cases (ordered), collects candidates, confirms each distinct fingerprint by two replays in brand-new
    driver processes (R3): first the single point alone, then - if that does not reproduce - the whole group."""
    cand = {}
    bp = stats.by_part.setdefault(part, {"points": 0, "completed": 0, "not_completed": 0, "outcomes": set()})
    results = []
    for res in pool.map(run_case, cases, chunksize, ordered=True):
        ev.traces += res["points"]
        ev.transitions += res["ops"]
        stats.points += res["points"]
        stats.completed += res["completed"]
        stats.nc += res["nc"]
        stats.deaths += res["deaths"]
        ev.not_completed += res["nc"]
        bp["points"] += res["points"]
        bp["completed"] += res["completed"]
        bp["not_completed"] += res["nc"]
        for o in res["outcomes"]:
            ev.outcome(part + ":" + o)
            bp["outcomes"].add(o)
        for k in stats.worst:
            stats.worst[k] = max(stats.worst[k], res["worst"][k])
        for smp in res["nc_samples"]:
            if len(stats.nc_samples) < 6 and sum(1 for x in stats.nc_samples if x["part"] == part) < 2:
                stats.nc_samples.append({"part": part, "case": case_name(res["case"]), "point": smp["point"], "error": smp["error"]})
        for smp in res["samples"]:
            if sum(1 for x in ev.samples if x.get("part") == part) < 2:
                smp = dict(smp)
                smp["part"] = part
                ev.sample(smp, limit=12)
        for d in res["diagnostics"]:
            ev.diag(d, limit=30)
        if part == "hist":
            results.append({"ops": res["case"]["ops"], "key": res.get("key"), "nc": bool(res["nc"])})
            if res.get("key"):
                ev.state(res["key"])
        for p in res["problems"]:
            fp, what = p[0], p[1]
            pc = p[2] if len(p) > 2 else res["case"]
            if fp not in cand:
                cand[fp] = (pc, what, res["case"], res.get("script", ""))
    for fp in sorted(cand):
        if fp in stats.reported:
            continue
        pc, what, group, script = cand[fp]
        ok = list(pool.map(core._confirm, [(run_case, pc, fp)]))[0]
        if ok:
            res = list(pool.map(run_case, [pc]))[0]
            stats.reported.add(fp)
            findings.report(fp, what, core.case_text(pc, res.get("script", script)))
            continue
        if pc is not group:
            ok = list(pool.map(core._confirm, [(run_case_group_fp, group, fp)]))[0]
            if ok:
                stats.reported.add(fp)
                findings.report(fp, what + "\n(reproduces only inside its group of lattice points run in one instance, not alone on a fresh instance)",
                                core.case_text(group, ""))
                continue
        ev.diag("unconfirmed candidate (did not reproduce twice in fresh processes): %s" % fp)
    return results


def run_case_group_fp(case):
    res = run_case(case)
    res["problems"] = [(p[0], p[1]) for p in res["problems"]]
    return res


def pp_cases(tier):
    """-> list of (bound name, cases)"""
    bounds = []

    def subsets(k):
        return [list(c) for c in itertools.combinations(PHASES, k)]
    temps = TEMPS[tier]
    F1 = "dissolve_only/precipitate_only any position, force_equality first"
    # a force_equality phase that cannot reach its target makes the program try every set of numerical parameters (30 ms
    # per point instead of 1.3 ms): force_equality on every position only for single phases and for pairs at 25 C (thorough)
    plan = [(1, SOL_ORDER, temps, "full")]
    if tier == "quick":
        plan.append((2, QUICK_PAIR_SOLS, temps, "full-f1"))
    else:
        plan.append((2, SOL_ORDER, [25.0], "full"))
        plan.append((2, SOL_ORDER, [t for t in temps if t != 25.0], "full-f1"))
    for k, sols, ts, scheme in plan:
        cs = [{"part": "pp", "sol": s, "T": T, "phases": sub, "scheme": scheme} for T in ts for s in sols for sub in subsets(k)]
        n = len(list(pp_points(k, scheme)))
        bounds.append(("pp: subsets of size %d (%d) x solutions %s x T %s x (target,moles)^%d x restriction (%s) = %d points each" % (
            k, len(subsets(k)), sols, ts, k, "any position" if scheme == "full" else F1, n), cs))
    # the same assemblage re-equilibrated with other targets on a stored solution (the engine may reuse its equation system)
    for k, sols in ((1, SOL_ORDER if tier != "quick" else ["hard", "sea", "amd"]), (2, ["hard"] if tier == "quick" else QUICK_PAIR_SOLS)):
        cs = [{"part": "pp", "sol": s, "T": 25.0, "phases": sub, "scheme": "retarget"} for s in sols for sub in subsets(k)]
        bounds.append(("pp retarget: subsets of size %d (%d) x solutions %s x 25 C: assemblage run with shifted targets, then with (target,moles)^%d x restriction (%s) = %d points each, second run judged" % (
            k, len(subsets(k)), sols, k, F1, len(list(pp_points(k, "full-f1")))), cs))
    # the other aqueous models (databases with a PITZER / SIT block)
    for db, phs in MODEL_DBS.items():
        ks = (1,) if tier == "quick" else (1, 2)
        for k in ks:
            msols = MODEL_SOLS if (tier != "quick" or k == 1) else ["sea"]
            scheme = "full" if k == 1 else "full-f1"
            subs = [list(c) for c in itertools.combinations(phs, k)]
            cs = [{"part": "pp", "sol": s, "T": 25.0, "phases": sub, "scheme": scheme, "db": db} for s in msols for sub in subs]
            bounds.append(("pp %s: subsets of size %d (%d) of %s x solutions %s x 25 C x (target,moles)^%d x restriction = %d points each" % (
                db, k, len(subs), phs, msols, k, len(list(pp_points(k, scheme)))), cs))
    # restricted single phases over four temperature steps, incremental or not (every step judged against its own start)
    ssols = ["hard", "sea"] if tier == "quick" else SOL_ORDER
    mins = [p for p in PHASES if p not in GASES]
    cs = [{"part": "pp", "sol": s, "T": 25.0, "phases": [p], "scheme": "steps"} for s in ssols for p in mins]
    bounds.append(("pp steps: %d minerals x solutions %s x dissolve_only/precipitate_only x targets x 2 amounts x REACTION_TEMPERATURE 5..90 up/down x INCREMENTAL_REACTIONS true/false = %d points each, 4 rows judged" % (
        len(mins), ssols, len(list(pp_steps_points()))), cs))
    if tier == "thorough":
        cs = [{"part": "pp", "sol": s, "T": 25.0, "phases": sub, "scheme": "tri"} for s in TRI_SOLS for sub in subsets(3)]
        bounds.append(("pp: subsets of size 3 (%d) x solutions %s x 25 C x targets^3 x 9 amount patterns x restriction (%s) = %d points each" % (
            len(subsets(3)), TRI_SOLS, F1, len(list(pp_points(3, "tri")))), cs))
        cs = [{"part": "pp", "sol": s, "T": 25.0, "phases": sub, "scheme": "reduced"} for s in QUAD_SOLS for sub in subsets(4)]
        bounds.append(("pp: subsets of size 4 (%d) x solutions %s x 25 C x targets {0,0.5}^4 x 5 amount patterns x restriction on the first phase = %d points each" % (
            len(subsets(4)), QUAD_SOLS, len(list(pp_points(4, "reduced")))), cs))
        six = ["Calcite", "Dolomite", "Gypsum", "Quartz", "Fe(OH)3(a)", "CO2(g)"]
        cs = [{"part": "pp", "sol": s, "T": T, "phases": six, "scheme": "reduced"} for T in temps for s in SOL_ORDER]
        bounds.append(("pp: one subset of size 6 x %d solutions x T %s x targets {0,0.5}^6 x 5 amount patterns x restriction on the first phase = %d points each" % (
            len(SOL_ORDER), temps, len(list(pp_points(6, "reduced")))), cs))
    return bounds


def hist_bfs(name, init, mode, levels, ev, findings, pool, stats, deadline):
    """levels: the op list of every depth (level k = every distinct completed state of level k-1 extended by levels[k-1])."""
    frontier = [()]
    for k in range(1, len(levels) + 1):
        use = levels[k - 1]
        cases = [{"part": "hist", "init": init, "mode": mode, "ops": list(seq) + [op]} for seq in frontier for op in use]
        bname = "hist %s: init=%s mode=%s depth %d (%d histories)" % (name, init, mode, k, len(cases))
        if deadline.passed():
            ev.bound(bname, False, cases=len(cases))
            return False
        results = explore(cases, ev, findings, pool, stats, "hist", chunksize=4)
        seen, nxt = set(), []
        for r in results:
            if r["nc"] or r["key"] in seen:
                continue
            seen.add(r["key"])
            nxt.append(tuple(r["ops"]))
        ev.bound(bname, True, cases=len(cases), distinct_states=len(nxt))
        frontier = nxt
    return True


def run(tier):
    ev = core.Evidence(PROP, tier)
    findings = core.Findings(PROP)
    ev.assumptions = [
        "database/phreeqc.dat loads without error",
        "read-outs: EQUI(), SI(), S_S(), MOL(), TOT(\"water\"), SYS(master, ...) listings in USER_PUNCH with -high_precision are the program's own "
        "report of moles, saturation index and molality (SI against the database equations is C01's subject)",
        "implementation constant: SI() reports -99.99 when an element of the phase is not in the system (such phases are judged by 'absent with 0 mol' only)",
        "implementation convention: the selected-output column 'state' is 'react' for rows of a reaction calculation",
        "implementation convention: the exchange master species (X-) is listed by SYS with a dummy amount; it is the unoccupied site and is not summed",
        "manual: dissolve_only = the phase may dissolve but not precipitate, precipitate_only = may precipitate but not dissolve; the moles at the start of the "
        "calculation are the reference; a restricted phase whose restriction is binding may keep SI above (dissolve_only) or below (precipitate_only) its target",
        "a gas listed in EQUILIBRIUM_PHASES takes part in the assemblages but is not judged (its target is a partial pressure; C19's relation)",
        "tolerances: SI 1e-6 and site balance relative 1e-8 from the statement; mole fractions sum to one 1e-8; ideal activity |SI - log10 x| <= 1e-6 "
        "(the statement gives no number for the last two: the statement's own tolerances of the neighbouring clauses are used)",
        "default convergence_tolerance (KNOBS unchanged): the statement's tolerances do not require a tighter one",
        "sites tied to a mineral: defined sites = sites per mole x EQUI(mineral) of the same row",
    ]
    drv.exe("rel")            # library + driver are built (if stale) before the deadline clock starts
    pool = core.Pool()
    stats = Stats()
    dl = core.Deadline(float(os.environ.get("VERIF_C03_DEADLINE", "150" if tier == "quick" else "840")))
    temps = TEMPS[tier]

    def lattice(name, cases, part):
        if deadline_cut[0] or dl.passed():
            deadline_cut[0] = True
            ev.bound(name, False, cases=len(cases))
            return
        before = (stats.points, stats.completed)
        explore(cases, ev, findings, pool, stats, part)
        ev.bound(name, True, groups=len(cases), points=stats.points - before[0], completed_runs=stats.completed - before[1])

    deadline_cut = [False]
    ppb = pp_cases(tier)
    npair = 2 if tier == "quick" else 3
    for name, cs in ppb[:npair]:
        lattice(name, cs, "pp")
    for part, defs in (("ex", EX_DEFS), ("su", SU_DEFS)):
        cs = [{"part": part, "sol": s, "T": T} for T in temps for s in SOL_ORDER]
        lattice("%s: %d definitions x %d reactions x {no assemblage, calcite} x %d solutions x T %s" % (part, len(defs), len(REACTIONS), len(SOL_ORDER), temps), cs, part)
    cs = [{"part": "ss", "sol": s, "T": T} for T in temps for s in SOL_ORDER]
    lattice("ss: %d definitions x %d initial amounts x %d reactions x %d solutions x T %s" % (len(SS_DEFS), len(SS_MOLES), len(SS_REACTIONS), len(SOL_ORDER), temps), cs, "ss")
    allops = c02.alphabet()
    relevant = [o for o in allops if o in c02.ATTACH and c02.ATTACH[o][0] in ("pp", "ex", "su", "ss")]
    if tier == "quick":
        plan = [("any op on the cell with every reactant", "full", m, [allops]) for m in ("use", "cells")] + \
               [("water/composition-changing op, any op on the cell with every reactant", "full", m, [FULL_FIRST, allops]) for m in ("use", "cells")] + \
               [("attach op, any op", "plain", m, [relevant, allops]) for m in ("use", "cells")]
    else:
        plan = [("any two ops on the cell with every reactant", "full", m, [allops, allops]) for m in ("use", "cells")] + \
               [("attach op, any op", "plain", m, [relevant, allops]) for m in ("use", "cells")] + \
               [("attach op, attach op, any op", "plain", m, [relevant, relevant, allops]) for m in ("use", "cells")]
    for name, init, mode, levels in plan:
        if not deadline_cut[0]:
            if not hist_bfs(name, init, mode, levels, ev, findings, pool, stats, dl):
                deadline_cut[0] = True
    for name, cs in ppb[npair:]:
        lattice(name, cs, "pp")
    pool.close()
    ev.extra["alphabet"] = {"phases": PHASES, "targets": TARGETS, "initial_moles": MOLES, "restrictions": ["none", "dissolve_only", "precipitate_only", "force_equality"],
                            "solutions": SOLS, "temperatures": temps, "exchanger_definitions": sorted(EX_DEFS), "surface_definitions": sorted(SU_DEFS),
                            "solid_solution_definitions": sorted(SS_DEFS), "reactions": sorted(REACTIONS), "history_ops (from C02)": allops}
    ev.extra["lattice_points"] = stats.points
    ev.extra["completed_runs"] = stats.completed
    ev.extra["not_completed_runs"] = stats.nc
    ev.extra["not_completed_samples"] = stats.nc_samples
    ev.extra["driver_deaths_counted_as_not_completed"] = stats.deaths
    ev.extra["by_part"] = {p: {"points": v["points"], "completed": v["completed"], "not_completed": v["not_completed"], "distinct_outcomes": len(v["outcomes"])}
                           for p, v in sorted(stats.by_part.items())}
    ev.extra["largest_deviation_among_passing_rows"] = {"|SI - target| of present phases": stats.worst["si"], "relative site imbalance": stats.worst["site"],
                                                        "|SI - log10 x| of ideal components": stats.worst["act"]}
    ev.n_states_extra = sum(v["completed"] for p, v in stats.by_part.items() if p != "hist")     # every completed lattice point is a distinct state; hist states are counted by key
    for p, v in stats.by_part.items():
        if v["points"] and v["completed"] < 0.5 * v["points"]:
            print("HARNESS ERROR C03: part %s: only %d of %d runs completed - the check is broken" % (p, v["completed"], v["points"]))
            raise SystemExit(2)
        if v["points"] > 50 and len(v["outcomes"]) < 5:
            print("HARNESS ERROR C03: part %s: %d runs but only %d distinct outcomes - the check is vacuous" % (p, v["points"], len(v["outcomes"])))
            raise SystemExit(2)
    return core.finish(ev, findings)


def replay(path):
    return core.replay_main(PROP, path, run_case_group_fp)
