"""C04  Results depend only on the input text, not on how it is delivered or split.

Shape H: for every input of a finite family (the shipped examples; generated multi-simulation inputs = every sequence
over an alphabet of simulation blocks up to a depth) EVERY way of cutting it at END boundaries into consecutive calls and
of delivering each piece through RunString / RunFile / AccumulateLine*+RunAccumulated is executed on the real library
(complete space for n <= 5 simulations, all executions within k deviations of the one-RunString-call execution otherwise)
and compared, bitwise, with the one-call execution on a fresh instance:
  (a) per user number the concatenated selected-output data rows as (heading, value) sets, column `sim` masked,
  (b) the text of a final `DUMP -all` issued as one extra call ("after simulation N." masked),
  (c) the component list, (d) every return code 0.
The oracle is purely differential (R6): no expected value is taken from the engine.
"""
import itertools
import os
import re

from .. import core, build, drv
from ..oracles import c04_inputs as gen

PROP = "C04"
EXDIR = os.path.join(build.REPO, "phreeqc3-examples")
DBDIR = os.path.join(build.REPO, "database")
CALL_TIMEOUT = 1500.0

EX_DB = {"ex15": ("ex", "ex15.dat"), "ex15a": ("ex", "ex15.dat"), "ex15b": ("ex", "ex15.dat"), "ex17": ("db", "pitzer.dat"),
         "ex17b": ("db", "pitzer.dat"), "ex20a": ("db", "iso.dat"), "ex20b": ("db", "iso.dat")}
ALL_EXAMPLES = ("ex1 ex2 ex2b ex3 ex4 ex5 ex6 ex7 ex8 ex9 ex10 ex11 ex12 ex12a ex12b ex13a ex13ac ex13b ex13c ex14 ex15 ex15a "
                "ex15b ex16 ex17 ex17b ex18 ex19 ex19b ex20a ex20b ex21 ex22").split()

# probe block appended to the first simulation of an example (variant "exp:"): makes the chemistry of every punch
# point observable as full doubles also for the examples that define no SELECTED_OUTPUT of their own
PROBE = ("SELECTED_OUTPUT 77\n -reset false\n -high_precision true\n -state true\n -solution true\n -step true\n -time true\n"
         " -distance true\n -reaction true\n -temperature true\n"
         "USER_PUNCH 77\n -headings pH pe mu water cb tot_o\n"
         " 10 PUNCH -LA(\"H+\"), -LA(\"e-\"), MU, TOT(\"water\"), CHARGE_BALANCE, TOTMOLE(\"O\")\n")

END_RE = re.compile(r"^\s*END\s*(#.*)?$", re.I)


# ------------------------------------------------------------------ inputs
def split_sims(text):
    """Simulations of an input: maximal runs of physical lines ending with a line that consists of END only.
    A trailing part without any keyword line (blank / comment only) stays attached to the last simulation.
    ''.join(result) == text."""
    lines = text.splitlines(True)
    sims, cur = [], []
    for ln in lines:
        cur.append(ln)
        if END_RE.match(ln.rstrip("\r\n")):
            sims.append("".join(cur))
            cur = []
    tail = "".join(cur)
    if tail:
        if any(l.strip() and not l.strip().startswith("#") for l in cur) or not sims:
            sims.append(tail)
        else:
            sims[-1] += tail
    assert "".join(sims) == text
    return sims


_inputs = {}


def get_input(key):
    """key: 'ex:<name>' shipped example as is; 'exp:<name>' shipped example + probe block; 'gen:<b1>,<b2>,..' generated."""
    if key in _inputs:
        return _inputs[key]
    kind, name = key.split(":", 1)
    if kind in ("ex", "exp"):
        text = open(os.path.join(EXDIR, name), encoding="latin-1").read()
        if not text.endswith("\n"):
            text += "\n"
        where, db = EX_DB.get(name, ("db", "phreeqc.dat"))
        db = os.path.join(EXDIR if where == "ex" else DBDIR, db)
        if kind == "exp":
            sims = split_sims(text)
            first = sims[0].splitlines(True)
            pos = len(first) - 1 if END_RE.match(first[-1].rstrip("\r\n")) else len(first)
            sims[0] = "".join(first[:pos]) + PROBE + "".join(first[pos:])
            text = "".join(sims)
        inp = {"key": key, "text": text, "db": db, "fileon": 1}
    elif kind == "gen":
        text = gen.assemble(name.split(",") if name else [])
        inp = {"key": key, "text": text, "db": os.path.join(DBDIR, "phreeqc.dat"), "fileon": 0}
    else:
        raise ValueError(key)
    inp["sims"] = split_sims(inp["text"])
    _inputs[key] = inp
    return inp


# ------------------------------------------------------------------ executions
def n_deviations(cuts, entries):
    return len(cuts) + sum(1 for e in entries if e != "S")


def executions(n, k=None):
    """All (cuts, entries) for an input of n simulations: cuts = sorted subset of boundaries 1..n-1, entries = one of
    S,F,A per piece.  k=None: the complete space (3*4^(n-1)); else all executions with <= k deviations from the
    default ((), 'S').  Ordered by number of deviations (simplest first)."""
    out = []
    bounds = list(range(1, n))
    for nc in range(0, len(bounds) + 1):
        if k is not None and nc > k:
            break
        for cuts in itertools.combinations(bounds, nc):
            for entries in itertools.product("SFA", repeat=nc + 1):
                if k is not None and n_deviations(cuts, entries) > k:
                    continue
                out.append((list(cuts), "".join(entries)))
    out.sort(key=lambda x: (n_deviations(x[0], x[1]), len(x[0]), x[0], x[1]))
    return out


def pieces_of(inp, cuts):
    sims = inp["sims"]
    b = [0] + list(cuts) + [len(sims)]
    return ["".join(sims[b[i]:b[i + 1]]) for i in range(len(b) - 1)]


def cell_repr(c):
    if isinstance(c, dict):
        return "L%d" % c["l"] if "l" in c else repr(sorted(c.items()))
    if isinstance(c, float):
        return repr(c)
    return "S" + c if isinstance(c, str) else repr(c)


def canon_rows(table):
    """Data rows of one call's table as sorted lists of (heading, value) without the simulation counter and without
    empty cells (a column of an earlier / later definition of the same user number)."""
    if not table:
        return []
    heads = table[0]
    rows = []
    for r in table[1:]:
        rows.append(sorted([str(h), cell_repr(c)] for h, c in zip(heads, r) if c is not None and h != "sim"))
    return rows


DESC_RE = re.compile(r"(after|defined in) simulation \d+\.?")


def mask_dump(s):
    return DESC_RE.sub(r"\1 simulation N.", s)


def deliver(d, how, text, k):
    if how == "S":
        return d.call("s0", "c", "RunString", text, timeout=CALL_TIMEOUT)
    if how == "F":
        name = "piece%d.pqi" % k
        d.cmd("writefile", name, text)
        return d.call("s0", "c", "RunFile", name, timeout=CALL_TIMEOUT)
    if how == "A":
        for ln in text.split("\n")[:-1] if text.endswith("\n") else text.split("\n"):
            d.call("s0", "c", "AccumulateLine", ln)
        return d.call("s0", "c", "RunAccumulated", timeout=CALL_TIMEOUT)
    raise ValueError(how)


def execute(d, inp, cuts, entries):
    d.reset()
    d.new("c")
    rc = d.call("s0", "c", "LoadDatabase", inp["db"])
    if rc != 0:
        raise RuntimeError("database %s does not load" % inp["db"])
    if inp["fileon"]:
        d.call("s0", "c", "SetSelectedOutputFileOn", 1)
    obs = {"rcs": [], "rows": {}, "err": "", "nrows": 0}
    for k, (piece, how) in enumerate(zip(pieces_of(inp, cuts), entries)):
        rc = deliver(d, how, piece, k)
        if isinstance(rc, dict):
            rc = "exit(%s)" % rc.get("exit")
        obs["rcs"].append(rc)
        if rc != 0 and not obs["err"]:
            obs["err"] = d.call("s0", "c", "GetErrorString")[:600]
        # the component list is read after every call (a client may do so): what is read after the last piece is the observable
        t = d.obs("s0", "c", "tc")
        comps_after_last_piece = t["components"]
        for u in t["users"]:
            rows = canon_rows(t["sel"][str(u)]["table"])
            obs["rows"].setdefault(str(u), []).extend(rows)
            obs["nrows"] += len(rows)
    d.call("s0", "c", "SetDumpStringOn", 1)
    rc = d.call("s0", "c", "RunString", "DUMP\n -all\nEND\n", timeout=CALL_TIMEOUT)
    obs["rc_dump"] = rc
    obs["dump"] = mask_dump(d.call("s0", "c", "GetDumpString"))
    t = d.obs("s0", "c", "tc")
    for u in t["users"]:
        rows = canon_rows(t["sel"][str(u)]["table"])
        obs["rows"].setdefault(str(u), []).extend(rows)
        obs["nrows"] += len(rows)
    obs["components"] = [comps_after_last_piece, t["components"]]      # after the last piece / after the extra DUMP call
    return obs


REFS = {}          # input key -> observation of the default execution (filled before the pool forks; lazily otherwise)


def crash_info(d, e):
    log = getattr(d, "dead_log", None) or []
    kind = "hang" if isinstance(e, drv.DrvTimeout) else "crash"
    t = log[-1].split("\t") if log else []
    fn = t[3] if len(t) > 3 and t[0] == "call" else "?"
    ncalls = sum(1 for l in log if l.startswith("call") and l.split("\t")[3] in ("RunString", "RunFile", "RunAccumulated"))
    return {"crash": kind, "fn": fn, "call_no": ncalls, "msg": "%s %s" % (e, getattr(e, "stderr", "")[-300:]), "script": "\n".join(log) + "\n"}


def safe_execute(d, inp, cuts, entries):
    try:
        return execute(d, inp, cuts, entries)
    except (drv.DrvDied, drv.DrvTimeout) as e:
        return crash_info(d, e)


def reference(d, inp):
    key = inp["key"]
    if key not in REFS:
        REFS[key] = safe_execute(d, inp, [], "S")
    return REFS[key]


def error_free(obs):
    return "crash" not in obs and all(rc == 0 for rc in obs["rcs"]) and obs["rc_dump"] == 0 and not obs["err"]


# ------------------------------------------------------------------ oracle
def dump_context(lines, i):
    """(block keyword, option) of line i of a RAW dump."""
    blk, opt = "?", "?"
    for j in range(i, -1, -1):
        m = re.match(r"^([A-Z_]+_RAW|USE|[A-Z_]+)\s", lines[j] + " ")
        if m and not lines[j].startswith((" ", "\t")):
            blk = m.group(1)
            break
    for j in range(i, -1, -1):
        m = re.match(r"^\s+-([A-Za-z_0-9]+)", lines[j])
        if m:
            opt = m.group(1)
            break
        if not lines[j].startswith((" ", "\t")):
            break
    return blk, opt


CLASSES = ["numbers agree to 1e-6 relative but not bitwise", "numbers differ by more than 1e-6 relative", "not numeric"]


def diff_class(x, y):
    """0: both numbers, relative difference <= 1e-6; 1: numbers further apart; 2: anything else.  Only used to word the
    fingerprint - every bitwise difference is a mismatch."""
    try:
        fx, fy = float(x), float(y)
    except (TypeError, ValueError):
        return 2
    if fx != fx or fy != fy:
        return 2
    return 0 if abs(fx - fy) <= 1e-6 * max(abs(fx), abs(fy)) else 1


def inverse_columns(text):
    """Selected-output headings that an INVERSE_MODELING block of this input produces (manual, SELECTED_OUTPUT
    -inverse_modeling: Sum_resid, Sum_Delta/U, MaxFracErr, Soln_n[_min|_max], phase[_min|_max])."""
    cols = set()
    inblk = opt = None
    for ln in text.splitlines():
        t = ln.split("#")[0].split()
        if not t:
            continue
        if not ln.startswith((" ", "\t")) and re.match(r"^[A-Za-z_]+$", t[0]) and not t[0].startswith("-"):
            inblk = t[0].upper().startswith("INVERSE_MODEL")
            opt = None
            continue
        if not inblk:
            continue
        if t[0].startswith("-"):
            opt = t[0].lstrip("-").lower()
            t = t[1:]
        if opt and opt.startswith("sol"):
            for x in t:
                if x.isdigit():
                    cols.update(["Soln_%s" % x, "Soln_%s_min" % x, "Soln_%s_max" % x])
        elif opt and opt.startswith("ph") and t:
            cols.update([t[0], t[0] + "_min", t[0] + "_max"])
    if cols:
        cols.update(["Sum_resid", "Sum_Delta/U", "MaxFracErr"])
    return cols


def compare(ref, obs, tag, problems, inv_cols=()):
    # (d) return codes
    bad = [i for i, rc in enumerate(obs["rcs"]) if rc != 0]
    if bad or obs["rc_dump"] != 0:
        first = (obs["err"].strip().splitlines() or ["?"])[0]
        fp = re.sub(r"\d+(\.\d+)?([eE][-+]?\d+)?", "#", first)[:100]
        problems.append(("rc: a piece of an error-free input reports errors: %s" % fp,
                         "return codes %s (final dump call %s); first error: %s (%s)" % (obs["rcs"], obs["rc_dump"], obs["err"][:300], tag)))
    # (a) rows
    ua, ub = sorted(ref["rows"], key=int), sorted(obs["rows"], key=int)
    if ua != ub:
        problems.append(("rows: user numbers differ", "one call: user numbers %s; this execution: %s (%s)" % (ua, ub, tag)))
    for u in ua:
        if u not in obs["rows"]:
            continue
        a, b = ref["rows"][u], obs["rows"][u]
        if a == b:
            continue
        if len(a) != len(b):
            i = next((i for i, (x, y) in enumerate(zip(a, b)) if x != y), min(len(a), len(b)))
            problems.append(("rows: number of data rows differs (%s)" % ("more" if len(b) > len(a) else "fewer"),
                             "user %s: one call gives %d data rows, this execution %d; first difference at data row %d: %s vs %s (%s)" % (
                                 u, len(a), len(b), i, a[i] if i < len(a) else None, b[i] if i < len(b) else None, tag)))
            continue
        i = next(i for i, (x, y) in enumerate(zip(a, b)) if x != y)
        da, db = dict(map(tuple, a[i])), dict(map(tuple, b[i]))
        cols = sorted(h for h in set(da) | set(db) if da.get(h) != db.get(h))
        if set(da) != set(db):
            fp = "rows: columns of a data row differ col=%s" % cols[0]
            if inv_cols and all(h in inv_cols for h in cols) and all(db.get(h) is None for h in cols):
                # the values of an inverse model are appended to a row that is never finished (finding F3): within one
                # call they end up in the next data row, across a call boundary they are dropped
                fp = "rows: columns differ block=inverse_modeling unfinished-row-merge"
        else:
            cl = max(diff_class(da[h], db[h]) for h in cols)
            fp = "rows: values differ (%s)" % CLASSES[cl] if cl == 0 else "rows: values differ (%s) col=%s" % (CLASSES[cl], cols[0])
        problems.append((fp, "user %s data row %d: columns %s: one call %s, this execution %s (%s)" % (
            u, i, cols[:6], [da.get(h) for h in cols[:6]], [db.get(h) for h in cols[:6]], tag)))
    # (b) final dump
    if ref["dump"] != obs["dump"]:
        la, lb = ref["dump"].split("\n"), obs["dump"].split("\n")
        i = next((i for i, (x, y) in enumerate(zip(la, lb)) if x != y), min(len(la), len(lb)))
        blk, opt = dump_context(la if i < len(la) else lb, min(i, len(la) - 1) if i < len(la) else i)
        cl = 2
        if i < len(la) and i < len(lb):
            ta, tb = la[i].split(), lb[i].split()
            if len(ta) == len(tb):
                cl = max(diff_class(x, y) for x, y in zip(ta, tb) if x != y)
        fp = "dump: final state differs at %s (%s)" % (blk, CLASSES[cl]) if cl == 0 else "dump: final state differs at %s -%s (%s)" % (blk, opt, CLASSES[cl])
        problems.append((fp, "final DUMP -all differs (%d vs %d lines), first at line %d: %r vs %r (%s)" % (
            len(la), len(lb), i, la[i][:120] if i < len(la) else None, lb[i][:120] if i < len(lb) else None, tag)))
    # (c) components
    if ref["components"] != obs["components"]:
        problems.append(("components differ", "one call %s, this execution %s (%s)" % (ref["components"], obs["components"], tag)))


def run_case(case):
    d = core.get_drv("rel")
    inp = get_input(case["input"])
    cuts, entries = case["cuts"], case["entries"]
    tag = "input %s (%d simulations), cuts after simulations %s, entry points %s" % (case["input"], len(inp["sims"]), cuts, entries)
    state = [core.sha(repr((case["input"], cuts, entries)))]
    if not cuts and entries == "S":
        # the default execution itself (only enumerated as a case when it crashed in phase 1): a crash in its second
        # call (the extra DUMP call) is a failure of a two-call history; a crash in the first call is not C04's business
        obs = safe_execute(d, inp, [], "S")
        pr = []
        if "crash" in obs and obs["call_no"] >= 2:
            pr.append(("%s in the extra DUMP call after a one-call run" % obs["crash"], "%s (%s)" % (obs["msg"], tag)))
        return {"case": case, "problems": pr, "ops": 2, "states": state, "outcome": obs.get("crash", "default"),
                "not_completed": "crash" in obs, "script": obs.get("script") or d.script()}
    ref = reference(d, inp)
    if not error_free(ref):
        return {"case": case, "problems": [], "ops": 0, "not_completed": True, "outcome": "not-error-free",
                "states": [], "script": ""}
    obs = safe_execute(d, inp, cuts, entries)
    if "crash" in obs:
        # the one-call execution of the same text completed: a crash / hang of a split execution is a mismatch
        return {"case": case, "problems": [("%s in %s of a split execution" % (obs["crash"], obs["fn"]), "%s in call %d: %s (%s)" % (
                    obs["crash"], obs["call_no"], obs["msg"], tag))],
                "ops": len(entries), "states": state, "outcome": obs["crash"], "script": obs["script"]}
    script = d.script()
    problems = []
    if "_invcols" not in inp:
        inp["_invcols"] = inverse_columns(inp["text"])
    compare(ref, obs, tag, problems, inp["_invcols"])
    seen, uniq = set(), []
    for p in problems:
        if p[0] not in seen:
            seen.add(p[0])
            uniq.append(p)
    return {"case": case, "problems": uniq, "ops": len(entries) + 1,
            "states": state,
            "outcome": core.sha(repr((sorted(obs["rows"].items()), obs["dump"], obs["components"], obs["rcs"]))),
            "script": script,
            "sample": {"case": case, "rcs": obs["rcs"], "data_rows": obs["nrows"], "dump_lines": obs["dump"].count("\n"),
                       "components": obs["components"]}}


def ref_case(key):
    """Phase 1: the default execution of one input (one RunString call)."""
    d = core.get_drv("rel")
    inp = get_input(key)
    obs = safe_execute(d, inp, [], "S")
    return key, obs, len(inp["sims"])


# ------------------------------------------------------------------ lattice
# seconds per one-call run on an unloaded core (measured once, only used to choose the bounds below - never at run time)
COST = {"ex6": .08, "ex10": .11, "ex11": .66, "ex12": .29, "ex12a": .24, "ex12b": .2, "ex13a": .06, "ex13ac": .14, "ex13b": .04,
        "ex13c": .1, "ex14": .04, "ex15": 2.1, "ex15a": 1.9, "ex15b": 2.0, "ex20b": .84, "ex21": 9.2, "ex22": .09}


def plan(tier):
    """[(input key, k)]: k = None -> the complete cut x entry-point space (only for n <= 5 simulations),
    k = int -> every execution within k deviations (a cut or a non-RunString entry point) of the one-call execution."""
    p = []

    def bound(e, budget, kmax):
        n = len(get_input("ex:" + e)["sims"])
        c = COST.get(e, .01)
        if n <= 5 and len(executions(n)) * c <= budget:
            return None
        for k in range(kmax, 0, -1):
            if len(executions(n, k)) * c <= budget:
                return k
        return 1

    if tier == "quick":
        for e in ALL_EXAMPLES:
            if COST.get(e, 0) > .3:
                continue                      # ex11 ex15* ex20b ex21: thorough only
            p.append((("exp:" if COST.get(e, 0) < .15 else "ex:") + e, bound(e, 4.0, 2)))
        for seq, k in gen.sequences("quick"):
            p.append(("gen:" + ",".join(seq), k))
    else:
        for e in ALL_EXAMPLES:
            p.append(("ex:" + e, bound(e, 120.0, 3)))
        for e in ALL_EXAMPLES:
            if COST.get(e, 0) > .3:
                continue
            p.append(("exp:" + e, bound(e, 60.0, 3)))
        for seq, k in gen.sequences("thorough"):
            p.append(("gen:" + ",".join(seq), k))
    return p


def run(tier):
    ev = core.Evidence(PROP, tier)
    findings = core.Findings(PROP)
    ev.assumptions = [
        "simulation boundary = a physical input line consisting of END only (END inside INCLUDE$d files or after ';' is not a cut point)",
        "the simulation counter is the selected-output column headed 'sim' and the text 'after simulation N.' in RAW descriptions; nothing else is masked",
        "empty table cells are not data: a one-call table carries the union of the columns of all definitions of a user number",
        "shipped examples run with SetSelectedOutputFileOn(1) (ex8 / ex20b INCLUDE$ the file their own SELECTED_OUTPUT wrote; without the file sink they "
        "are not error-free); selected-output files are per-call artefacts (re-created at the start of every call), so cuts that separate such a writer "
        "from its INCLUDE$ reader change the effective input text and are excluded (observed: ex8 cut after simulation 3 truncates Zn1e_4 -> 15 instead of 28 rows)",
        "a crash / hang of a split execution, or of the extra DUMP call after a one-call run, counts as a mismatch (the one-call run of the same text completed)",
        "no constant of the implementation is used: the oracle is the one-RunString-call execution of the same text on a fresh instance",
    ]
    dl = core.Deadline(170 if tier == "quick" else 1750)
    pl = plan(tier)
    # ---- phase 1: default executions (they are the references); before the worker pool of phase 2 forks
    pool = core.Pool()
    keys = [k for k, _ in pl]
    nsims = {}
    for key, obs, n in pool.map(ref_case, keys, 1, ordered=True):
        REFS[key] = obs
        nsims[key] = n
        ev.traces += 1
        ev.transitions += 2
    pool.close()
    crashed = [k for k in keys if "crash" in REFS[k]]
    if any(REFS[k]["call_no"] < 2 for k in crashed):
        raise SystemExit("C04 harness: one-call run crashed / hung (not a C04 matter): %s" % [(k, REFS[k]["msg"][:200]) for k in crashed if REFS[k]["call_no"] < 2][:3])
    pool = core.Pool()
    if crashed:
        # the library died in the extra DUMP call that follows the one-call run: a two-call history; confirm and report (R3)
        core.explore_cases([{"input": k, "cuts": [], "entries": "S"} for k in crashed], run_case, ev, findings, pool, chunksize=1)
    ok = [k for k in keys if error_free(REFS[k])]
    notok = [k for k in keys if not error_free(REFS[k]) and k not in crashed]
    ev.not_completed += len(notok)
    ev.extra["inputs"] = {"total": len(keys), "error_free": len(ok), "not_error_free": len(notok),
                          "not_error_free_samples": [(k, (REFS[k]["err"].strip().splitlines() or ["?"])[0][:120]) for k in notok[:8]],
                          "with_selected_output_rows": sum(1 for k in ok if REFS[k]["nrows"] > 0),
                          "data_rows_in_references": sum(REFS[k]["nrows"] for k in ok),
                          "simulations_per_input": {str(n): sum(1 for k in ok if nsims[k] == n) for n in sorted(set(nsims.values()))}}
    ev.bound("default (one RunString call) execution of %d inputs" % len(keys), True, inputs=len(keys), error_free=len(ok))
    pick = [k for k in ok if not k.startswith("gen:")][:2] + [k for k in ok if k.startswith("gen:")][-2:]
    ev.extra["reference_samples"] = [{"input": k, "simulations": nsims[k], "return_codes": REFS[k]["rcs"], "data_rows": {u: len(r) for u, r in REFS[k]["rows"].items()},
                                      "first_data_row": next((r[0] for r in REFS[k]["rows"].values() if r), None),
                                      "dump_head": REFS[k]["dump"].split("\n")[:3], "components": REFS[k]["components"]} for k in pick]
    # vacuity guards (harness errors, exit 2)
    shipped = [k for k in keys if not k.startswith("gen:")]
    if any(k in notok for k in shipped):
        raise SystemExit("C04 harness: shipped example(s) not error-free in one call: %s" % [k for k in shipped if k in notok])
    gens = [k for k in keys if k.startswith("gen:")]
    if gens and sum(1 for k in gens if k in ok) < 0.6 * len(gens):
        raise SystemExit("C04 harness: only %d of %d generated inputs are error-free" % (sum(1 for k in gens if k in ok), len(gens)))
    distinct = len(set(core.sha(repr((REFS[k]["rows"], REFS[k]["dump"]))) for k in ok))
    ev.extra["inputs"]["distinct_reference_observations"] = distinct
    if distinct < max(10, 0.25 * len(ok)):
        raise SystemExit("C04 harness: only %d distinct reference observations for %d inputs - observation is vacuous" % (distinct, len(ok)))
    # ---- phase 2: every non-default execution of every error-free input
    kmap = dict(pl)
    groups = [("shipped examples", [k for k in ok if not k.startswith("gen:")]), ("generated inputs", [k for k in ok if k.startswith("gen:")])]
    n_exec = n_excl = 0
    for gname, gkeys in groups:
        cases = []
        for key in gkeys:
            for cuts, entries in executions(nsims[key], kmap[key]):
                if not cuts and entries == "S":
                    continue
                if excluded(key, cuts):
                    n_excl += 1
                    continue
                cases.append({"input": key, "cuts": cuts, "entries": entries})
        cases.sort(key=lambda c: (n_deviations(c["cuts"], c["entries"]), len(get_input(c["input"])["text"])))
        n_exec += len(cases)
        done = core.explore_cases(cases, run_case, ev, findings, pool, chunksize=4, deadline=dl) if not dl.passed() else False
        ev.bound("%s: %d inputs, %d executions (complete cut x entry-point space for n<=5 unless a deviation bound is listed)" % (
            gname, len(gkeys), len(cases)), done, executions=len(cases),
            deviation_bounds={k: kmap[k] for k in gkeys if kmap[k] is not None} if gname.startswith("shipped") else
            {"inputs_with_deviation_bound_%d" % b: sum(1 for k in gkeys if kmap[k] == b) for b in sorted(set(v for v in (kmap[k] for k in gkeys) if v is not None))})
    pool.close()
    ev.extra["executions"] = {"lattice_points": n_exec + len(keys), "non_default_executions": n_exec, "default_executions": len(keys),
                              "excluded_writer_reader_cuts": n_excl, "inputs_not_error_free": len(notok), "inputs_crashed_in_dump_call": len(crashed)}
    ev.extra["alphabet"] = {"entry_points": ["RunString", "RunFile", "AccumulateLine*+RunAccumulated"],
                            "cut_points": "every subset of the END boundaries",
                            "generated_blocks": gen.describe(), "generated_depth": gen.DEPTH[tier]}
    return core.finish(ev, findings)


# writer/reader pairs through the file system (the input reads back, with INCLUDE$, a file that its own SELECTED_OUTPUT
# wrote; IPhreeqc re-creates selected-output files at the start of every call): cuts strictly between the simulation that
# defines the writer and the last simulation that reads are not "the same input text"
def excluded(key, cuts):
    inp = get_input(key)
    rng = inp.get("_inc")
    if rng is None:
        rng = []
        sims = inp["sims"]
        for i, s in enumerate(sims):
            for m in re.finditer(r"^\s*INCLUDE\$\s+(\S+)", s, re.M | re.I):
                w = [j for j in range(0, i + 1) if re.search(r"^\s*-file\s+%s\s*$" % re.escape(m.group(1)), sims[j], re.M | re.I)]
                if w:
                    rng.append((min(w) + 1, i))     # boundaries min(w)+1 .. i separate writer and reader
        inp["_inc"] = rng
    return any(lo <= c <= hi for c in cuts for lo, hi in rng)


def replay(path):
    return core.replay_main(PROP, path, run_case)
