"""C12  Kinetic reactions transfer exactly what they integrate, within tolerance.

Shape L: full lattice  rate-law family x (k*T) x tolerance x integrator x -bad_step_max x m0 x context, and inside every
lattice point every division of T into steps x INCREMENTAL_REACTIONS.  Every point is executed on the real library;
the oracle is the closed-form solution of the rate law (mc/oracles/kin_exact.py, textbook ODE solutions) and the
invariances the statement lists.  Tolerance everywhere: 100 x the user tolerance (-tol, absolute moles per reactant),
as the statement says.

One *case* = (family, kT, m0, tol, integrator, bad_step_max, context); it performs one engine run per
(division, incremental) - 8 in batch, 6 in ADVECTION / TRANSPORT - plus the same runs with the reference integrator
(-runge_kutta 6, -bad_step_max 500; cached per worker) for the integrator-invariance relation.

Relations judged (R1: nothing else is a violation)
  negative-amount            a reported reactant amount < 0
  exact-solution-miss        |reported - closed form| > 100 tol, *per KINETICS calculation*: the closed form is started from
                             the state the calculation started from (time zero for cumulative steps; the previously reported
                             state for INCREMENTAL_REACTIONS true and for each ADVECTION / TRANSPORT shift) - the manual's
                             -tol bounds the error estimate of each integration interval, the statement allows 100 x that
                             for a calculation; it does not promise a bound on the drift accumulated over many calculations
                             except through the three invariances below
  transfer-mismatch          moles that left the reactants x formula = moles that arrived in the solution (batch: cumulative,
                             ADVECTION: per shift; relative 1e-6 of the inventory as in C02)
  step-division-dependence   amount at T for a division of T vs. one step, same INCREMENTAL_REACTIONS, > 100 tol
  incremental-dependence     same division, INCREMENTAL_REACTIONS true vs false, any reported time, > 100 tol
  integrator-dependence      same input with -runge_kutta 6, any reported time, > 100 tol
  (a run that already misses its closed form is reported under that relation only).
Runs with rc != 0 / ERROR are counted as not completed and not judged (R2; cvode with -bad_step_max 10 legitimately
stops with 'CVode is at maximum calls').

Calibration on the unchanged tree (R5), what was changed against the first version of this check
  * ADVECTION / TRANSPORT inputs now carry 'USE solution none': a simulation that defines SOLUTION and KINETICS runs the
    implicit batch reaction over the default 1 s first and keeps its result in the KINETICS entity (manual), so every
    reactant entered shift 1 already 1 s old and every closed form / transfer relation was off by k*1 s.  Oracle error.
  * closed form per calculation instead of from time zero for chained calculations (see above).  Oracle stricter than text.
  * explicit-time law (rate reads TOTAL_TIME) dropped from the claim: the statement lists zero-order, first-order and
    coupled linear laws, and the manual defines TOTAL_TIME as the cumulative-time read-out, not its value inside an
    integration interval.  The family is still run (first bound, DIAGNOSTIC ONLY) and what it shows is written to
    coverage.diagnostics: -runge_kutta 1 evaluates its acceptance test with the time of the step start, cvode freezes
    TOTAL_TIME at the start of each internal step (reading kinetics.cpp run_reactions: a -cvode_steps restart also
    rewinds it to the interval start; not separately observed).
  * genuine as the statement stands (kept, fingerprints carry integrator, tol and size class):
    -cvode with -cvode_order 2 at -tol <= 1e-8 misses the closed form of a single calculation by 100..600 x tol.
Fingerprint = relation + integrator option + tolerance (+ size class '1e2..1e3xtol' | '1e3..1e4xtol' | '>=1e4xtol'); rate family, kT and
context are in the explanation.
"""
import math
import os
import sys

from .. import core, build, phr, drv
from ..oracles import kin_exact as kx

PROP = "C12"
T = 100.0                      # total time of the closed-form families (s)
FACTOR = 100.0                 # "within 100 x the user tolerance"
REL_TRANSFER = 1e-6            # C02's tolerance for the transfer relation (relative to the element's inventory)

INTEGRATORS = ["rk1", "rk2", "rk3", "rk6", "cv2s100", "cv5s100", "cv2s1000", "cv5s1000", "cv5s10", "cv5s20", "rk3d4", "rk1d25", "rk2d4", "rk6d25", "rk3d0.01"]   # rkNdM = -runge_kutta N with -step_divide M
REF_INTEG = "rk6"
REF_BSM = 500
BATCH_DIVS = ["1", "2", "7", "L", "2T"]
SHIFT_DIVS = ["1", "2", "7"]
LIST_CUM = [0.1, 0.3, 0.6, 1.0]
LIST_INC = [0.1, 0.2, 0.3, 0.4]


# ------------------------------------------------------------------------------------------------ families
def integ_label(integ):
    """Fingerprint label: the integrator class (cvode's step cap is not part of the mechanism)."""
    if integ.startswith("rk"):
        if "d" in integ:
            o, d = integ[2:].split("d")
            return "rk%s-step_divide%s1" % (o, ">" if float(d) > 1 else "<")
        return "rk%s" % integ[2:]
    steps = int(integ.split("s")[1])
    # a step budget far below what the interval needs sends the integration through the restart loop of run_reactions
    return "cvode-order%s%s" % (integ[2], "-restarts(cvode_steps<=20)" if steps <= 20 else "")


def integ_text(integ, bsm):
    if integ.startswith("rk"):
        o, _, d = integ[2:].partition("d")
        t = " -runge_kutta %s\n" % o + (" -step_divide %s\n" % d if d else "")
    else:
        order, steps = integ[2], integ.split("s")[1]
        t = " -cvode true\n -cvode_order %s\n -cvode_steps %s\n" % (order, steps)
    return t + " -bad_step_max %d\n" % bsm


def _g(v):
    return repr(float(v))


def family(fam, x, m0, total_time=T):
    """Returns dict(rates, comps=[(name, formula_text, {el: coef}, m0, parms)], law,
    advance(state, dt, t0) -> {name: m}) where state = {"m": {name: amount}, "Na": moles of Na in the solution} is the
    state at the start of one KINETICS calculation, dt its duration and t0 the time already elapsed (only the
    explicit-time law looks at t0)."""
    TT = total_time
    if fam == "zero":
        r = 0.5 * x * m0 / TT                       # x = 0.01: 0.5 % consumed, 1: half, 10: exhausted at T/5
        return {"law": "autonomous",
                "rates": "zero\n -start\n 10 rate = PARM(1)\n 20 IF (M <= 0) THEN rate = 0\n 30 SAVE rate * TIME\n -end\n",
                "comps": [("zero", "NaCl 1", {"Na": 1, "Cl": 1}, m0, [r])],
                "advance": lambda st, dt, t0: {"zero": kx.zero_order(st["m"]["zero"], r, dt)}}
    if fam == "first":
        k = x / TT
        return {"law": "autonomous",
                "rates": "first\n -start\n 10 rate = PARM(1) * M\n 20 SAVE rate * TIME\n -end\n",
                "comps": [("first", "NaCl 1", {"Na": 1, "Cl": 1}, m0, [k])],
                "advance": lambda st, dt, t0: {"first": kx.first_order(st["m"]["first"], k, dt)}}
    if fam == "two":
        ka, kb = x / TT, 3.0 * x / TT
        mb = 0.5 * m0
        return {"law": "autonomous",
                "rates": "decA\n -start\n 10 rate = PARM(1) * M\n 20 SAVE rate * TIME\n -end\n"
                         "decB\n -start\n 10 rate = PARM(1) * M\n 20 SAVE rate * TIME\n -end\n",
                "comps": [("decA", "NaCl 1", {"Na": 1, "Cl": 1}, m0, [ka]), ("decB", "KCl 1", {"K": 1, "Cl": 1}, mb, [kb])],
                "advance": lambda st, dt, t0: {"decA": kx.first_order(st["m"]["decA"], ka, dt), "decB": kx.first_order(st["m"]["decB"], kb, dt)}}
    if fam == "chain":
        k1, k2 = x / TT, 2.5 * x / TT
        b0 = 0.25 * m0
        return {"law": "autonomous",
                "rates": "chA\n -start\n 10 rate = PARM(1) * M\n 20 SAVE rate * TIME\n -end\n"
                         "chB\n -start\n 10 rate = PARM(2) * M - PARM(1) * KIN(\"chA\")\n 20 SAVE rate * TIME\n -end\n",
                "comps": [("chA", "NaCl 1", {"Na": 1, "Cl": 1}, m0, [k1, k2]), ("chB", "NaCl 1", {"Na": 1, "Cl": 1}, b0, [k1, k2])],
                "advance": lambda st, dt, t0: dict(zip(("chA", "chB"), kx.chain(st["m"]["chA"], st["m"]["chB"], k1, k2, dt)))}
    if fam == "approach":
        k = x / TT
        s = 0.5 * m0
        return {"law": "autonomous",
                "rates": "appr\n -start\n 10 rate = PARM(1) * (PARM(2) - TOT(\"Na\") * TOT(\"water\"))\n 20 SAVE rate * TIME\n -end\n",
                "comps": [("appr", "NaCl 1", {"Na": 1, "Cl": 1}, m0, [k, s])],
                "advance": lambda st, dt, t0: {"appr": kx.approach(st["m"]["appr"], st["Na"], s, k, dt)[0]}}
    if fam == "tdep":
        b = 2.0 / TT
        r0 = 0.25 * x * m0 / TT                     # consumed at T: r0 (T + b T^2/2) = 2 r0 T = x m0 / 2
        return {"law": "explicit-time",
                "rates": "tdep\n -start\n 10 rate = PARM(1) * (1 + PARM(2) * TOTAL_TIME)\n 20 IF (M <= 0) THEN rate = 0\n 30 SAVE rate * TIME\n -end\n",
                "comps": [("tdep", "NaCl 1", {"Na": 1, "Cl": 1}, m0, [r0, b])],
                "advance": lambda st, dt, t0: {"tdep": max(st["m"]["tdep"] - r0 * (dt + 0.5 * b * ((t0 + dt) ** 2 - t0 ** 2)), 0.0)}}
    raise KeyError(fam)


# shipped rate library of phreeqc.dat: (solution text, reactant name, kinetics body, total time, {el: coef})
SHIPPED = {
    "Calcite": ("SOLUTION 1\n pH 7 charge\n C 1 CO2(g) -2\n",
                "Calcite\n -m0 3e-3\n -m 3e-3\n -parms 1.67e5 0.6\n", 86400.0),
    "Pyrite": ("SOLUTION 1\n pH 7\n O(0) 0.3\n Na 1\n Cl 1 charge\n",
               "Pyrite\n -m0 5e-4\n -m 5e-4\n -parms 0.3 0.67 0.5 -0.11\n", 86400.0),
    "Organic_C": ("SOLUTION 1\n pH 7\n O(0) 0.3\n N(5) 0.2\n S(6) 0.5\n Na 2\n Cl 1 charge\n",
                  "Organic_C\n -formula CH2O 1\n -m0 5e-3\n -m 5e-3\n", 30 * 365.25 * 86400.0),
    "K-feldspar": ("SOLUTION 1\n pH 6 charge\n C 1 CO2(g) -2\n",
                   "K-feldspar\n -m0 2.18\n -m 2.18\n -parms 6.41 0.1\n", 1.5 * 365.25 * 86400.0),
}


# ------------------------------------------------------------------------------------------------ input text
# A simulation that defines a solution and KINETICS implicitly defines a batch reaction (manual, USE; KINETICS -steps
# defaults to 1 s) whose result is kept in the KINETICS entity; "USE solution none" is the manual's way to have none,
# so that the reactants enter the first shift with their initial amounts.
NO_BATCH = "USE solution none\n"
TRN_FLOW = {"trn": "forward", "trnb": "back", "trnd": "diffusion_only"}      # TRANSPORT contexts (2 cells, kinetics in both)


EXTRA_STEPS = 2       # divisions "<n>T": a REACTION_TEMPERATURE (constant 25 C) with n + 2 steps next to "T in n steps"


def expected_times(ctx, div, total):
    if div == "L":
        return [f * total for f in LIST_CUM]
    if div.endswith("T"):
        # the batch reaction runs max(steps of all keywords) steps; the manual: the kinetic time of "T in n steps" is used up
        # after n steps, further steps add no time (incremental) / integrate over T again (cumulative): the state at T
        n = int(div[:-1])
        return [total * i / n for i in range(1, n + 1)] + [total] * EXTRA_STEPS
    n = int(div)
    return [total * i / n for i in range(1, n + 1)]


def steps_text(div, incr, total):
    if div == "L":
        fr = LIST_INC if incr else LIST_CUM
        return " ".join(_g(f * total) for f in fr)
    n = int(div[:-1]) if div.endswith("T") else int(div)
    return _g(total) if n == 1 else "%s in %d steps" % (_g(total), n)


def build_input(case, div, incr, integ, bsm):
    fam, ctx, tol = case["fam"], case["ctx"], case["tol"]
    if fam in SHIPPED:
        sol, body, total = SHIPPED[fam]
        names = [fam]
        rates = ""
        kin = body + " -tol %s\n" % _g(tol)
        sol_block = sol
    else:
        f = family(fam, case["x"], case["m0"])
        total = T
        names = [c[0] for c in f["comps"]]
        rates = "RATES\n" + f["rates"]
        kin = ""
        for name, ftxt, _, m0, parms in f["comps"]:
            kin += "%s\n -formula %s\n -m0 %s\n -m %s\n -parms %s\n -tol %s\n" % (name, ftxt, _g(m0), _g(m0), " ".join(_g(p) for p in parms), _g(tol))
        sol_block = "SOLUTION 1\n pH 7\n Na 1\n Cl 1\n"
    punch = ", ".join('KIN("%s")' % n for n in names)
    heads = " ".join("m_%d" % i for i in range(len(names)))
    up = ("SELECTED_OUTPUT 1\n -reset false\n -high_precision true\n -state true\n -step true\n -time true\n -solution true\n"
          "USER_PUNCH 1\n -headings %s na cl k tt st kt\n"
          ' 10 w = TOT("water")\n 20 PUNCH %s, TOT("Na")*w, TOT("Cl")*w, TOT("K")*w, TOTAL_TIME, SIM_TIME, KIN_TIME\n' % (heads, punch))
    head = "PRINT\n -reset false\nINCREMENTAL_REACTIONS %s\n" % ("true" if incr else "false")
    itxt = integ_text(integ, bsm)
    if ctx == "batch":
        more = "REACTION_TEMPERATURE 1\n 25 25 in %d steps\n" % (int(div[:-1]) + EXTRA_STEPS) if div.endswith("T") else ""
        return (head + rates + sol_block + "KINETICS 1\n" + kin + " -steps %s\n" % steps_text(div, incr, total) + itxt + more + up + "END\n"), names
    n = int(div)
    dt = _g(total / n)
    if ctx == "adv":
        sol0 = sol_block.replace("SOLUTION 1", "SOLUTION 0-1")
        return (head + rates + sol0 + NO_BATCH + "KINETICS 1\n" + kin + itxt + up +
                "ADVECTION\n -cells 1\n -shifts %d\n -time_step %s\n -punch_cells 1\n -punch_frequency 1\n -print_frequency 1000\nEND\n" % (n, dt)), names
    if ctx in TRN_FLOW:
        sol0 = sol_block.replace("SOLUTION 1", "SOLUTION 0-3")
        return (head + rates + sol0 + NO_BATCH + "KINETICS 1-2\n" + kin + itxt + up +
                "TRANSPORT\n -cells 2\n -shifts %d\n -time_step %s\n -lengths 1\n -dispersivities 0.05\n -flow_direction %s\n"
                " -boundary_conditions %s\n -punch_cells 1-2\n -punch_frequency 1\n -print_frequency 1000\nEND\n" % (
                    n, dt, TRN_FLOW[ctx], "closed closed" if ctx == "trnd" else "flux flux")), names
    raise KeyError(ctx)


# ------------------------------------------------------------------------------------------------ one engine run
def run_one(case, div, incr, integ, bsm):
    """Executes one input on a freshly loaded instance.  Returns dict(ok, rows=[{t, time, cell, m:{name: v}, sol:{el: v}}], init)."""
    text, names = build_input(case, div, incr, integ, bsm)
    try:
        s = phr.session("phreeqc.dat", reload=True)
        r = s.run(text)
    except drv.DrvDied as e:
        # A crash is not what C12 is about (C08/C07 are), but it must neither pass silently nor look like a kinetics
        # violation: the run is repeated once in a brand-new driver process; a second death is a harness error (exit 2).
        _side_diags.append("driver process died once and the same input then ran normally in a fresh process (%s); input rate=%s ctx=%s division=%s incremental=%s integ=%s" % (
            str(e)[:60], case["fam"], case["ctx"], div, incr, integ))
        core.close_drvs()
        s = phr.session("phreeqc.dat", reload=True)
        r = s.run(text)
    ok = (r["rc"] == 0) and ("ERROR" not in r["err"])
    out = {"ok": ok, "text": text, "rows": [], "init": None, "err": r["err"][:300], "warn": r["warn"][:200]}
    if not ok:
        return out
    rows = r["sel"].get(1, [])
    if not rows or "m_0" not in rows[0]:
        raise RuntimeError("selected output lacks the punched columns: %r" % (r["heads"],))
    total = SHIPPED[case["fam"]][2] if case["fam"] in SHIPPED else T
    times = expected_times(case["ctx"], div, total)
    want_state = {"batch": "react", "adv": "advect", "trn": "transp", "trnb": "transp", "trnd": "transp"}[case["ctx"]]
    for row in rows:
        sol = {"Na": row["na"], "Cl": row["cl"], "K": row["k"]}
        if row["state"] == "i_soln":
            if out["init"] is None:
                out["init"] = sol
            continue
        if row["state"] != want_state or row["step"] < 1:
            continue
        if row["step"] > len(times):
            raise RuntimeError("more reported steps than requested: %r" % (row,))
        out["rows"].append({"t": times[row["step"] - 1], "step": row["step"], "time": row["time"], "tt": row["tt"], "st": row["st"], "kt": row["kt"],
                            "cell": row["soln"], "m": {n: row["m_%d" % i] for i, n in enumerate(names)}, "sol": sol})
    ncell = 2 if case["ctx"] in TRN_FLOW else 1
    if len(out["rows"]) != len(times) * ncell or out["init"] is None:
        raise RuntimeError("expected %d result rows, got %d (vacuity guard): %s" % (len(times) * ncell, len(out["rows"]), text))
    return out


_ref_cache = {}
_side_diags = []


def reference(case, div, incr):
    key = (case["fam"], case.get("x"), case.get("m0"), case["tol"], case["ctx"], div, incr)
    if key not in _ref_cache:
        if len(_ref_cache) > 400:
            _ref_cache.clear()
        _ref_cache[key] = run_one(case, div, incr, REF_INTEG, REF_BSM)
    return _ref_cache[key]


# ------------------------------------------------------------------------------------------------ oracle
def expected_rows(f, case, r, incr):
    """Closed-form amounts for every reported row of one run, *per KINETICS calculation* (the statement's unit):
    the exact solution is started from the state the calculation itself started from and advanced over the
    calculation's own time span -
      batch, INCREMENTAL_REACTIONS false: every step integrates anew from time zero (manual, KINETICS -steps), so the
        start state is the initial one and the span is the cumulative time;
      batch, INCREMENTAL_REACTIONS true / ADVECTION / TRANSPORT: a step (shift) continues from the result of the
        previous one, so the start state is the previously *reported* state of the same cell and the span one step.
    Returns a list parallel to r["rows"] of {name: exact amount}."""
    m_init = {c[0]: c[3] for c in f["comps"]}
    out = []
    prev = {}          # cell -> (t, state)
    for row in r["rows"]:
        cell = row["cell"]
        if case["ctx"] == "batch" and not incr:
            t0, st = 0.0, {"m": m_init, "Na": r["init"]["Na"]}
        else:
            t0, st = prev.get(cell, (0.0, {"m": m_init, "Na": r["init"]["Na"]}))
        out.append(f["advance"](st, row["t"] - t0, t0))
        prev[cell] = (row["t"], {"m": dict(row["m"]), "Na": row["sol"]["Na"]})
    return out


def judge(case, runs, refs):
    fam, ctx, tol, integ = case["fam"], case["ctx"], case["tol"], case["integ"]
    lim = FACTOR * tol
    lab = integ_label(integ)
    shipped = fam in SHIPPED
    f = None if shipped else family(fam, case["x"], case["m0"])
    # the explicit-time law is outside the statement's list (zero-order, first-order, coupled linear) and the manual
    # does not define the value of TOTAL_TIME inside an integration interval: everything it shows is a diagnostic
    diag_only = (f is not None and f["law"] == "explicit-time")
    # fingerprint = relation + integrator option + tolerance + order of magnitude of the excess: the mechanism.  The rate
    # family and the context are in the explanation (all closed-form families are smooth linear laws: which of them
    # shows an integrator's error first is not a different mechanism).
    tag = "integrator=%s tol=%s" % (lab, _g(tol))
    where = "rate=%s ctx=%s kT=%s m0=%s integ=%s bad_step_max=%s" % (fam, ctx, case.get("x"), case.get("m0"), integ, case["bsm"])
    problems, diags = [], []

    def add(fp, msg):
        if diag_only:
            diags.append("explicit-time law (not judged): " + fp + ": " + msg + " [" + where + "]")
        else:
            problems.append((fp, msg + " [" + where + "]"))

    exp_cache = {}

    def expected(key, r):
        if key not in exp_cache:
            exp_cache[key] = expected_rows(f, case, r, key[2])
        return exp_cache[key]

    def exact_ok(key, r):
        """True if every reported amount of the run is within the limit of the closed form (or there is none)."""
        if f is None:
            return True
        return all(abs(m - ex[name]) <= lim for row, ex in zip(r["rows"], expected(key, r)) for name, m in row["m"].items())

    for (div, incr), r in sorted(runs.items()):
        if not r["ok"]:
            continue
        rid = "division=%s incremental=%s" % (div, incr)
        exs = expected(("run", div, incr), r) if f is not None else [None] * len(r["rows"])
        for row, ex in zip(r["rows"], exs):
            for name, m in row["m"].items():
                # --- amounts never negative
                if m < 0:
                    add("negative-amount ctx=%s %s" % (ctx, tag), "%s: reactant %s = %r < 0 at t=%r" % (rid, name, m, row["t"]))
                # --- closed form of the calculation that produced this row
                if ex is not None and not abs(m - ex[name]) <= lim:
                    e = abs(m - ex[name]) / tol
                    add("exact-solution-miss %s error=%s" % (tag, decade(e)),
                        "%s: %s(t=%r, cell %s) = %r, closed form of this calculation %r, error %.3g = %.1f x tol (limit 100 x tol = %g)" % (
                            rid, name, row["t"], row["cell"], m, ex[name], m - ex[name], e, lim))
            # time read-outs are not part of the statement: diagnostics only
            if abs(row["time"] - row["t"]) > 1e-9 * max(1.0, row["t"]) or abs(row["tt"] - row["t"]) > 1e-9 * max(1.0, row["t"]):
                diags.append("time read-out differs from the step list: -time %r TOTAL_TIME %r expected %r (%s %s)" % (row["time"], row["tt"], row["t"], rid, where))
        # --- transfer: what left the reactants arrived in the solution (batch: cumulative; ADVECTION: per shift, the
        #     cell receives the unreacted inflow solution 0 = initial solution at every shift)
        if f is not None and ctx in ("batch", "adv"):
            coefs = {c[0]: c[2] for c in f["comps"]}
            m_init = {c[0]: c[3] for c in f["comps"]}
            prev = dict(m_init)
            for row in r["rows"]:
                for el in ("Na", "Cl", "K"):
                    base = m_init if ctx == "batch" else prev
                    sol0 = r["init"]
                    lost = sum((base[n] - row["m"][n]) * coefs[n].get(el, 0) for n in coefs)
                    gained = row["sol"][el] - sol0[el]
                    inv = abs(row["sol"][el]) + sum(abs(row["m"][n]) * coefs[n].get(el, 0) for n in coefs)
                    if not abs(gained - lost) <= REL_TRANSFER * inv:
                        add("transfer-mismatch element=%s ctx=%s %s" % (el, ctx, tag), "%s: solution gained %r mol %s, reactants lost %r x formula (t=%r)" % (rid, gained, el, lost, row["t"]))
                prev = dict(row["m"])

    def final(r):
        return [row for row in r["rows"] if row["step"] == r["rows"][-1]["step"]]

    def cmp_rows(ka, ra, kb, rb, fp, what, all_rows):
        # a run that already misses its closed form is reported under that (primary) relation only: the invariance
        # relations are evaluated between runs that individually satisfy it, so one failure does not get four names
        if not (exact_ok(ka, ra) and exact_ok(kb, rb)):
            return
        rows_a = ra["rows"] if all_rows else final(ra)
        rows_b = rb["rows"] if all_rows else final(rb)
        if all_rows and len(rows_a) != len(rows_b):
            return
        for a, b in zip(rows_a, rows_b):
            for name in a["m"]:
                d = a["m"][name] - b["m"][name]
                if not abs(d) <= lim:
                    add("%s difference=%s" % (fp, decade(abs(d) / tol)),
                        "%s: %s(t=%r) = %r vs %r, difference %.3g = %.1f x tol (limit 100 x tol)" % (what, name, a["t"], a["m"][name], b["m"][name], d, abs(d) / tol))
                    return

    divs = sorted(set(d for d, _ in runs))
    incrs = sorted(set(i for _, i in runs))
    # --- result at T independent of the division of T
    for incr in incrs:
        base = runs.get(("1", incr))
        if base is None or not base["ok"]:
            continue
        for div in divs:
            r = runs[(div, incr)]
            if div != "1" and r["ok"]:
                cmp_rows(("run", div, incr), r, ("run", "1", incr), base, "step-division-dependence " + tag, "division=%s vs one step, incremental=%s" % (div, incr), False)
    # --- independent of INCREMENTAL_REACTIONS (same reporting times)
    if len(incrs) == 2:
        for div in divs:
            a, b = runs[(div, True)], runs[(div, False)]
            if a["ok"] and b["ok"]:
                cmp_rows(("run", div, True), a, ("run", div, False), b, "incremental-dependence " + tag, "division=%s incremental true vs false" % div, True)
    # --- independent of the integrator: against -runge_kutta 6 on the same division
    if refs:
        for key, r in sorted(runs.items()):
            ref = refs.get(key)
            if r["ok"] and ref is not None and ref["ok"]:
                cmp_rows(("run",) + key, r, ("ref",) + key, ref, "integrator-dependence " + tag.replace("integrator=%s" % lab, "integrator=%s-vs-rk6" % lab),
                         "division=%s incremental=%s: %s vs rk6" % (key[0], key[1], integ), True)
    return problems, diags


def decade(ratio):
    """Size class of an error expressed in units of tol: '1e2..1e3xtol' (a few hundred tol), '1e3..1e4xtol', or '>=1e4xtol' (gross).
    Part of the fingerprint so that a recorded miss of a few hundred tol cannot mask a gross one of the same
    configuration."""
    return "1e2..1e3xtol" if ratio < 1e3 else "1e3..1e4xtol" if ratio < 1e4 else ">=1e4xtol"


# ------------------------------------------------------------------------------------------------ case
def run_case(case):
    ctx, integ, bsm = case["ctx"], case["integ"], case["bsm"]
    divs = BATCH_DIVS if ctx == "batch" else SHIFT_DIVS
    runs, refs = {}, {}
    states, nruns = [], 0
    del _side_diags[:]
    for div in divs:
        for incr in (False, True):
            r = run_one(case, div, incr, integ, bsm)
            runs[(div, incr)] = r
            nruns += 1
            key = core.sha(repr((sorted(case.items()), div, incr)))
            states.append(("ok:" if r["ok"] else "nc:") + key)
            if not (integ == REF_INTEG and bsm == REF_BSM):
                refs[(div, incr)] = reference(case, div, incr)
    problems, diags = judge(case, runs, refs)
    seen, uniq = set(), []
    for p in problems:
        if p[0] not in seen:
            seen.add(p[0])
            uniq.append(p)
    n_ok = sum(1 for r in runs.values() if r["ok"])
    outcome = core.sha(repr([(k, [sorted(row["m"].items()) for row in r["rows"]] if r["ok"] else r["err"][:60]) for k, r in sorted(runs.items())]))
    sample = {"case": case, "runs_completed": n_ok, "runs": len(runs),
              "final_amounts": {"%s/%s" % k: (r["rows"][-1]["m"] if r["ok"] else "not completed: " + r["err"][:80]) for k, r in sorted(runs.items())}}
    # why runs did not complete (R2: they are not judged), one line per distinct reason
    nc = sorted(set("not completed (not judged): %s [integ=%s bad_step_max=%s tol=%s]" % (" ".join(r["err"].split())[:110], integ, bsm, _g(case["tol"]))
                    for r in runs.values() if not r["ok"]))
    # the replay artefact lists the inputs (the driver script of the last run alone would not show the comparison partners)
    script = "".join("# ---- input division=%s incremental=%s\n%s" % (k[0], k[1], "".join("#   " + l + "\n" for l in r["text"].splitlines())) for k, r in sorted(runs.items()))
    res = {"case": case, "problems": uniq, "ops": nruns, "states": states, "outcome": outcome, "not_completed": n_ok < len(runs),
           "script": script, "diagnostics": list(_side_diags) + nc[:1] + sorted(set(diags))[:2]}
    if case["fam"] != "tdep":          # evidence samples come from judged cases only
        res["sample"] = sample
    return res


# ------------------------------------------------------------------------------------------------ lattice
QUICK_INTEGRATORS = ["rk1", "rk2", "rk3", "rk6", "cv5s100", "cv2s100", "cv5s10", "cv5s20", "rk3d4", "rk1d25", "rk3d0.01"]
AUTONOMOUS = ["zero", "first", "two", "chain", "approach"]


def cases(tier):
    """Returns list of (bound name, [cases]) in simplest-first order."""
    tols = [1e-6, 1e-8, 1e-10]
    xs = [0.01, 1.0, 10.0]
    bounds = []

    def lattice(fams, ctxs, integs, bsms, m0s, xs_=xs, tols_=tols):
        out = []
        for fam, ctx, x, m0, tol, integ, bsm in core.product(fams, ctxs, xs_, m0s, tols_, integs, bsms):
            out.append({"fam": fam, "ctx": ctx, "x": x, "m0": m0, "tol": tol, "integ": integ, "bsm": bsm})
        return out

    def shipped(names, integs, tols_):
        out = []
        for fam, tol, integ in core.product(names, tols_, integs):
            out.append({"fam": fam, "ctx": "batch", "tol": tol, "integ": integ, "bsm": REF_BSM})
        return out

    if tier == "quick":
        bounds.append(("DIAGNOSTIC ONLY (not judged) explicit-time law: kT 0.01 x tol 1e-6 x {rk1, rk3, cvode 5}",
                       lattice(["tdep"], ["batch"], ["rk1", "rk3", "cv5s100"], [500], [1.0], [0.01], [1e-6])))
        bounds.append(("closed forms, batch: 5 families x kT {0.01,1,10} x tol {1e-6,1e-8,1e-10} x 9 integrators (rk 1/2/3/6, cvode order 5 and 2, rk3 and rk1 with -step_divide 4 / 25 / 0.01; m0 1, bad_step_max 500) x 5 divisions (incl. one with a REACTION_TEMPERATURE that asks for 2 more steps than KINETICS) x 2 incremental",
                       lattice(AUTONOMOUS, ["batch"], QUICK_INTEGRATORS, [500], [1.0])))
        bounds.append(("closed forms inside ADVECTION and TRANSPORT (forward, backward, diffusion only) time steps: {zero, first} x 3 kT x 3 tol x {rk3, rk6, cvode 5} x shift counts {1,2,7} x 2 incremental",
                       lattice(["zero", "first"], ["adv", "trn", "trnb", "trnd"], ["rk3", "rk6", "cv5s100"], [500], [1.0])))
        bounds.append(("shipped rates Calcite, Pyrite: tol 1e-8 x 9 integrators x 5 divisions (incl. one with a REACTION_TEMPERATURE that asks for 2 more steps than KINETICS) x 2 incremental (invariances only)",
                       shipped(["Calcite", "Pyrite"], QUICK_INTEGRATORS, [1e-8])))
    else:
        bounds.append(("DIAGNOSTIC ONLY (not judged) explicit-time law: kT {0.01,1} x tol {1e-6,1e-8} x {rk1, rk2, rk3, rk6, cvode 5}",
                       lattice(["tdep"], ["batch"], ["rk1", "rk2", "rk3", "rk6", "cv5s100"], [500], [1.0], [0.01, 1.0], [1e-6, 1e-8])))
        bounds.append(("closed forms, batch: 5 families x 3 kT x 3 tol x 13 integrators (+ cvode_steps 1000) x bad_step_max {500,10} x m0 {1, 0.001} x 5 divisions (incl. one with a REACTION_TEMPERATURE that asks for 2 more steps than KINETICS) x 2 incremental",
                       lattice(AUTONOMOUS, ["batch"], INTEGRATORS, [500, 10], [1.0, 1e-3])))
        bounds.append(("closed forms inside ADVECTION and TRANSPORT (forward, backward, diffusion only) time steps: {zero, first, two, chain} x 3 kT x 3 tol x 13 integrators x shift counts {1,2,7} x 2 incremental",
                       lattice(["zero", "first", "two", "chain"], ["adv", "trn", "trnb", "trnd"], INTEGRATORS, [500], [1.0])))
        bounds.append(("shipped rates Calcite, Pyrite, Organic_C, K-feldspar: 3 tol x 13 integrators x 5 divisions (incl. one with a REACTION_TEMPERATURE that asks for 2 more steps than KINETICS) x 2 incremental (invariances only)",
                       shipped(["Calcite", "Pyrite", "Organic_C", "K-feldspar"], INTEGRATORS, [1e-6, 1e-8, 1e-10])))
    return bounds


ASSUMPTIONS = [
    "database/phreeqc.dat loads without error; its RATES blocks Calcite, Pyrite, Organic_C, K-feldspar are used verbatim",
    "-tol is an absolute tolerance in moles per reactant (PHREEQC manual, KINETICS -tol: 'Tolerance for integration procedure (moles)'); "
    "'100 x the user tolerance' = 100 * tol moles, applied per KINETICS calculation (one time step / one shift) for the closed-form relation "
    "and to the amounts reported for the same time for the three invariance relations",
    "rate programs SAVE moles leaving the reactant over TIME (manual, RATES); positive = reactant decreases, formula enters the solution",
    "step semantics from the manual: '-steps T in n steps' = n equal increments; a list is cumulative times when INCREMENTAL_REACTIONS false "
    "(every step integrated anew from time zero) and increments when true (a step starts from the previous result)",
    "ADVECTION / TRANSPORT integrate the rates over -time_step per shift in every cell (manual); a simulation that defines a solution and "
    "KINETICS also performs a 1 s batch reaction first (manual: implicit batch reaction, -steps default 1 s) - suppressed with 'USE solution none'",
    "TOT(\"el\") * TOT(\"water\") = moles of the element in the solution (used for the transfer relation, tolerance 1e-6 of the inventory as in C02)",
    "constants taken from the implementation: none (defaults used only as option values: -bad_step_max 500, -cvode_steps 100, -cvode_order 5, -runge_kutta 3)",
    "reference integrator of the integrator-invariance relation is -runge_kutta 6 with -bad_step_max 500",
    "not part of the claim: rate laws that read TOTAL_TIME (the manual defines TOTAL_TIME only as the cumulative time read-out, not its value inside "
    "an integration interval; the statement lists zero-order, first-order and coupled linear laws) - explored, reported as diagnostics",
]


def run(tier):
    ev = core.Evidence(PROP, tier)
    findings = core.Findings(PROP)
    ev.assumptions = list(ASSUMPTIONS)
    pool = core.Pool()
    dl = core.Deadline(400 if tier == "quick" else 2400)
    prev = True
    ncases = 0
    for name, cs in cases(tier):
        done = False
        if prev:
            done = core.explore_cases(cs, run_case, ev, findings, pool, chunksize=1, deadline=dl)
        ev.bound(name, done, cases=len(cs))
        ncases += len(cs)
        prev = done
    pool.close()
    n_ok = sum(1 for s in ev.states if str(s).startswith("ok:"))
    n_nc = sum(1 for s in ev.states if str(s).startswith("nc:"))
    ev.extra["lattice_points_cases"] = ncases
    ev.extra["lattice_points_runs"] = n_ok + n_nc
    ev.extra["engine_runs_completed"] = n_ok
    ev.extra["engine_runs_not_completed"] = n_nc
    ev.extra["alphabet"] = {"families": AUTONOMOUS + ["tdep (diagnostic only)"] + sorted(SHIPPED), "kT": [0.01, 1, 10], "tol": [1e-6, 1e-8, 1e-10],
                            "integrators": QUICK_INTEGRATORS if tier == "quick" else INTEGRATORS, "divisions_batch": BATCH_DIVS, "shift_counts": SHIFT_DIVS,
                            "incremental": [False, True], "contexts": ["batch", "adv", "trn (forward)", "trnb (backward)", "trnd (diffusion only)"], "bad_step_max": [500] if tier == "quick" else [500, 10],
                            "m0": [1.0] if tier == "quick" else [1.0, 1e-3]}
    ev.extra["relations"] = ["negative-amount", "exact-solution-miss (per KINETICS calculation, 100 x tol)", "transfer-mismatch (batch, ADVECTION; 1e-6 of the inventory)",
                             "step-division-dependence (final time, 100 x tol)", "incremental-dependence (every reported time, 100 x tol)",
                             "integrator-dependence (vs -runge_kutta 6, every reported time, 100 x tol)"]
    if ev.traces and n_ok < 0.5 * (n_ok + n_nc):
        sys.stderr.write("HARNESS ERROR C12: only %d of %d runs completed - the check is broken (R2 floor)\n" % (n_ok, n_ok + n_nc))
        return 2
    if ev.traces > 20 and len(ev.outcomes) < ev.traces // 4:
        sys.stderr.write("HARNESS ERROR C12: %d cases gave only %d distinct outcomes - vacuous\n" % (ev.traces, len(ev.outcomes)))
        return 2
    return core.finish(ev, findings)


def replay(path):
    return core.replay_main(PROP, path, run_case)
