"""Pre-build everything the registered checks need (library variants in parallel, then harnesses)."""
import subprocess
import sys

from . import build, drv

VARIANTS = ["rel", "san", "tsabi", "tsan"]


def main():
    procs = [subprocess.Popen([sys.executable, "-m", "mc.build", v]) for v in VARIANTS]
    rc = [p.wait() for p in procs]
    if any(rc):
        return 2
    drv.exe("rel")
    drv.exe("san")
    from .props import c06
    c06.build_vsched()
    c06.build_freerun()
    return 0


if __name__ == "__main__":
    sys.exit(main())
