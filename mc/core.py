"""Explorer core shared by all property checks: process pool with per-worker driver,
bound-major enumeration helpers, evidence writer, violation / known-finding reporting.
"""
import hashlib
import itertools
import json
import multiprocessing as mp
import os
import sys
import time
import traceback

from . import build, drv

ROOT = build.ROOT
NCPU = int(os.environ.get("VERIF_JOBS", str(os.cpu_count() or 4)))
SEED = int(os.environ.get("VERIF_SEED", "0"))

# ------------------------------------------------------------------ per-process driver cache
_drvs = {}


def get_drv(variant="rel", whitebox=False):
    key = (variant, whitebox)
    d = _drvs.get(key)
    if d is None or d.proc is None or d.proc.poll() is not None:
        d = drv.Drv(variant, whitebox)
        _drvs[key] = d
    return d


def fresh_drv(variant="rel", whitebox=False):
    """A driver process that has executed nothing yet (ids start at 0)."""
    key = (variant, whitebox)
    d = _drvs.get(key)
    if d is None:
        d = drv.Drv(variant, whitebox)
        _drvs[key] = d
    else:
        d.start()
    return d


def close_drvs():
    for d in _drvs.values():
        d.close()
    _drvs.clear()


# ------------------------------------------------------------------ pool
def _worker_init():
    _drvs.clear()


def _call(args):
    f, item = args
    try:
        return ("ok", f(item))
    except Exception:
        return ("err", traceback.format_exc())


class Pool:
    """imap over work items in worker processes; each worker lazily owns its driver(s).
    Harness errors (exceptions in the check's own code) abort the check with exit 2:
    a broken check must never look like a pass or a violation."""

    def __init__(self, n=None):
        self.n = n or NCPU
        self.pool = mp.get_context("fork").Pool(self.n, initializer=_worker_init)

    def map(self, f, items, chunksize=1, ordered=False):
        it = ((f, x) for x in items)
        fn = self.pool.imap if ordered else self.pool.imap_unordered
        for st, r in fn(_call, it, chunksize):
            if st == "err":
                sys.stderr.write("HARNESS ERROR in worker:\n%s\n" % r)
                self.pool.terminate()
                raise SystemExit(2)
            yield r

    def close(self):
        self.pool.terminate()
        self.pool.join()


# ------------------------------------------------------------------ enumeration helpers
def product(*dims):
    """Full lattice, simplest-first: points ordered by the sum of their indices."""
    idx = [range(len(d)) for d in dims]
    pts = sorted(itertools.product(*idx), key=lambda p: (sum(p), p))
    for p in pts:
        yield tuple(d[i] for d, i in zip(dims, p))


def sequences(alphabet, depth):
    """All op sequences of length 0..depth, shorter first."""
    for k in range(depth + 1):
        for s in itertools.product(alphabet, repeat=k):
            yield s


def sha(s):
    if isinstance(s, str):
        s = s.encode("latin-1", "replace")
    return hashlib.sha1(s).hexdigest()[:16]


# ------------------------------------------------------------------ findings / violations
class Findings:
    def __init__(self, prop):
        self.prop = prop
        self.known = []
        self.fixed = []
        p = os.path.join(ROOT, "known_findings.jsonl")
        if os.path.exists(p):
            for line in open(p):
                line = line.strip()
                if not line:
                    continue
                d = json.loads(line)
                if d.get("property") != prop:
                    continue
                (self.known if d.get("status") == "known" else self.fixed).append(d)
        self.violations = []      # (fingerprint, replay path)
        self.known_hits = {}      # fingerprint -> count
        self.printed = set()

    def match(self, fingerprint):
        for k in self.known:
            if k["fingerprint"] == fingerprint:
                return k
        return None

    def report(self, fingerprint, what, replay_text, ext="case"):
        """Report one candidate that has already been confirmed by replay.  Returns True if it is a new violation."""
        k = self.match(fingerprint)
        if k is not None:
            self.known_hits[fingerprint] = self.known_hits.get(fingerprint, 0) + 1
            if fingerprint not in self.printed:
                self.printed.add(fingerprint)
                print("KNOWN-FINDING: property=%s %s" % (self.prop, k["what"]))
                sys.stdout.flush()
            return False
        d = os.path.join(ROOT, "replays", self.prop)
        os.makedirs(d, exist_ok=True)
        path = os.path.join(d, "%s.%s" % (sha(fingerprint + "\0" + replay_text), ext))
        with open(path, "w", encoding="latin-1", errors="replace") as f:
            f.write("# property=%s\n# fingerprint=%s\n" % (self.prop, fingerprint))
            for l in what.splitlines():
                f.write("# %s\n" % l)
            f.write(replay_text)
        if len(self.violations) < 20:
            print("VIOLATION property=%s replay=%s" % (self.prop, path))
            print("  fingerprint: %s" % fingerprint)
            for l in what.splitlines()[:12]:
                print("  " + l)
            sys.stdout.flush()
        self.violations.append((fingerprint, path))
        return True


# ------------------------------------------------------------------ evidence
class Evidence:
    def __init__(self, prop, tier):
        self.prop = prop
        self.tier = tier
        self.t0 = time.time()
        self.states = set()
        self.n_states_extra = 0
        self.transitions = 0
        self.traces = 0
        self.outcomes = set()
        self.samples = []
        self.bounds = []
        self.assumptions = []
        self.extra = {}
        self.exhaustive = True
        self.not_completed = 0
        self.diagnostics = []

    def state(self, key):
        self.states.add(key if isinstance(key, (str, int, tuple)) and len(str(key)) < 40 else sha(str(key)))

    def outcome(self, key):
        self.outcomes.add(key if len(str(key)) < 40 else sha(str(key)))

    def sample(self, s, limit=6):
        if len(self.samples) < limit:
            self.samples.append(s)

    def diag(self, s, limit=40):
        if len(self.diagnostics) < limit:
            self.diagnostics.append(s)

    def bound(self, name, completed, **kw):
        d = {"bound": name, "completed": bool(completed)}
        d.update(kw)
        self.bounds.append(d)
        if not completed:
            self.exhaustive = False

    def write(self, findings):
        cov = {
            "states": max(1, len(self.states) + self.n_states_extra),
            "transitions": max(1, self.transitions),
            "traces_validated_against_impl": self.traces,
            "samples": self.samples or ["(none)"],
            "distinct_outcomes": len(self.outcomes),
            "bounds": self.bounds,
            "not_completed": self.not_completed,
            "exhaustive": bool(self.exhaustive),
            "known_finding_hits": findings.known_hits,
            "diagnostics": self.diagnostics,
        }
        cov.update(self.extra)
        ev = {
            "property_id": self.prop,
            "tier": self.tier,
            "seed": SEED,
            "level": "model_checking",
            "coverage": cov,
            "assumptions": self.assumptions,
            "wall_s": round(time.time() - self.t0, 3),
            "violations": len(findings.violations),
        }
        # evidence of runs against another checkout (VERIF_REPO, mutation demos) never replaces the real evidence
        d = os.path.join(ROOT, "evidence") if build.REPO == "/repo" else os.path.join(build.BUILD, "evidence" + build._tag())
        os.makedirs(d, exist_ok=True)
        path = os.path.join(d, "%s.json" % self.prop)
        try:
            import jsonschema
            schema = json.load(open("/root/.vp/EVIDENCE.schema.json"))
            jsonschema.validate(ev, schema)
        except ImportError:
            pass
        except FileNotFoundError:
            pass
        tmp = path + ".tmp"
        with open(tmp, "w") as f:
            json.dump(ev, f, indent=1, sort_keys=True, default=str)
            f.write("\n")
        os.replace(tmp, path)
        return ev


class Deadline:
    def __init__(self, seconds):
        self.t_end = time.time() + seconds

    def passed(self):
        return time.time() > self.t_end

    def left(self):
        return self.t_end - time.time()


def finish(ev, findings):
    """Common epilogue: write evidence, print summary, exit code."""
    e = ev.write(findings)
    c = e["coverage"]
    print("%s %s: states=%d transitions=%d traces=%d outcomes=%d exhaustive=%s not_completed=%d wall=%.1fs violations=%d known_hits=%d" % (
        ev.prop, ev.tier, c["states"], c["transitions"], c["traces_validated_against_impl"], c["distinct_outcomes"],
        c["exhaustive"], c["not_completed"], e["wall_s"], len(findings.violations), sum(findings.known_hits.values())))
    for b in ev.bounds:
        print("  bound %s" % json.dumps(b, sort_keys=True))
    sys.stdout.flush()
    close_drvs()
    return 1 if findings.violations else 0


# ------------------------------------------------------------------ case running with replay-before-report (R3)
def case_text(case, script=""):
    return "# case=%s\n%s" % (json.dumps(case, sort_keys=True), script)


def load_case(path):
    for line in open(path, encoding="latin-1"):
        if line.startswith("# case="):
            return json.loads(line[len("# case="):])
    raise SystemExit("no '# case=' line in %s" % path)


def _confirm(args):
    run_case, case, fp = args
    hits = 0
    for _ in range(2):
        close_drvs()                       # brand-new driver process
        res = run_case(case)
        if any(p[0] == fp for p in res.get("problems", [])):
            hits += 1
    close_drvs()
    return hits == 2


def explore_cases(cases, run_case, ev, findings, pool, chunksize=1, deadline=None, max_confirm_per_fp=1):
    """Run every case, collect candidate problems, confirm each distinct fingerprint by two fresh replays of its
    first (simplest) case, then report.  Returns False if the deadline cut the enumeration."""
    cand = {}          # fp -> list of (order, case, what, script)
    complete = True
    n = 0
    for res in pool.map(run_case, cases, chunksize, ordered=True):
        n += 1
        ev.traces += 1
        ev.transitions += res.get("ops", 1)
        for s in res.get("states", ()):
            ev.state(s)
        if "outcome" in res:
            ev.outcome(res["outcome"])
        if res.get("not_completed"):
            ev.not_completed += 1
        if "sample" in res:
            ev.sample(res["sample"])
        for d in res.get("diagnostics", ()):
            ev.diag(d)
        for p in res.get("problems", ()):
            fp, what = p[0], p[1]
            cand.setdefault(fp, [])
            if len(cand[fp]) < max_confirm_per_fp:
                cand[fp].append((res["case"], what, res.get("script", "")))
        if deadline is not None and deadline.passed():
            complete = False
            break
    for fp in sorted(cand):
        for case, what, script in cand[fp]:
            ok = list(pool.map(_confirm, [(run_case, case, fp)]))[0]
            if ok:
                findings.report(fp, what, case_text(case, script))
                break
            else:
                ev.diag("unconfirmed candidate (did not reproduce twice in fresh processes): %s" % fp)
    return complete


def replay_main(prop, path, run_case):
    case = load_case(path)
    res = run_case(case)
    close_drvs()
    probs = res.get("problems", [])
    findings = Findings(prop)
    new = 0
    for fp, what in [(p[0], p[1]) for p in probs]:
        k = findings.match(fp)
        if k:
            print("KNOWN-FINDING: property=%s %s" % (prop, k["what"]))
        else:
            new += 1
            print("VIOLATION property=%s replay=%s" % (prop, path))
            print("  fingerprint: %s" % fp)
            for l in what.splitlines()[:20]:
                print("  " + l)
    if not probs:
        print("replay of %s: property holds on this case" % path)
    return 1 if new else 0
