"""Client for native/vdrv (see its header comment for the protocol)."""
import json
import os
import select
import shutil
import subprocess
import tempfile

from . import build

SCRATCH_ROOT = os.environ.get("VERIF_SCRATCH", "/tmp/verif-scratch")

SAN_ENV = {
    "ASAN_OPTIONS": "detect_leaks=0:abort_on_error=0:exitcode=66:allocator_may_return_null=1:handle_abort=0",
    "UBSAN_OPTIONS": "print_stacktrace=1:halt_on_error=1:exitcode=67",
}


class DrvDied(Exception):
    """The driver process ended (crash, sanitizer report, abort, fatal signal)."""

    def __init__(self, msg, returncode=None, stderr="", fatal=None):
        Exception.__init__(self, msg)
        self.returncode = returncode
        self.stderr = stderr
        self.fatal = fatal


class DrvTimeout(Exception):
    pass


def esc(v):
    if v is None:
        return "\\N"
    if isinstance(v, bool):
        return "1" if v else "0"
    if isinstance(v, (int, float)):
        return repr(v)
    if isinstance(v, bytes):
        s = v.decode("latin-1")
    else:
        s = v
    out = []
    for ch in s:
        o = ord(ch)
        if ch == "\\":
            out.append("\\\\")
        elif ch == "\n":
            out.append("\\n")
        elif ch == "\t":
            out.append("\\t")
        elif ch == "\r":
            out.append("\\r")
        elif o < 0x20 or 0x7f <= o < 0x100:
            out.append("\\x%02x" % o)
        elif o >= 0x100:
            out.append("".join("\\x%02x" % b for b in ch.encode("utf-8")))
        else:
            out.append(ch)
    return "".join(out)


def cmdline(*tokens):
    return "\t".join(esc(t) for t in tokens)


def exe(variant="rel", whitebox=False):
    flags = ["-DVDRV_WHITEBOX"] if whitebox else []
    if variant == "f77":
        flags.append("-DIPHREEQC_NO_FORTRAN_MODULE")
    return build.ensure_exe("vdrv" + ("wb" if whitebox else ""), variant, ["native/vdrv.cpp"], extra_flags=flags)


class Drv:
    """One driver process with a private scratch directory (removed on close)."""

    def __init__(self, variant="rel", whitebox=False, timeout=120.0, record=True):
        self.variant = variant
        self.exe = exe(variant, whitebox)
        self.timeout = timeout
        self.record = record
        self.proc = None
        self.dir = None
        self.log = []
        self.start()

    def start(self):
        self.close()
        os.makedirs(SCRATCH_ROOT, exist_ok=True)
        self.dir = tempfile.mkdtemp(prefix="d", dir=SCRATCH_ROOT)
        env = dict(os.environ)
        env.update(getattr(self, "extra_env", None) or {})      # e.g. MALLOC_PERTURB_ for the heap-garbage differential of C06
        if self.variant == "san":
            env.update(SAN_ENV)
        self.errpath = os.path.join(self.dir, "stderr.txt")
        self.errf = open(self.errpath, "wb")
        self.proc = subprocess.Popen([self.exe, "--dir", self.dir], stdin=subprocess.PIPE, stdout=subprocess.PIPE,
                                     stderr=self.errf, env=env, bufsize=0)
        self.buf = b""
        self.log = []

    def close(self):
        if self.proc is not None:
            try:
                self.proc.stdin.close()
            except Exception:
                pass
            try:
                self.proc.wait(timeout=2)
            except Exception:
                self.proc.kill()
                self.proc.wait()
            try:
                self.proc.stdout.close()
            except Exception:
                pass
            self.proc = None
        if getattr(self, "errf", None):
            self.errf.close()
            self.errf = None
        if self.dir:
            shutil.rmtree(self.dir, ignore_errors=True)
            self.dir = None

    def __del__(self):
        try:
            self.close()
        except Exception:
            pass

    def _stderr(self):
        try:
            with open(self.errpath, "rb") as f:
                return f.read().decode("latin-1")[-20000:]
        except Exception:
            return ""

    def _readline(self, timeout):
        fd = self.proc.stdout.fileno()
        while b"\n" not in self.buf:
            r, _, _ = select.select([fd], [], [], timeout)
            if not r:
                raise DrvTimeout()
            chunk = os.read(fd, 1 << 20)
            if not chunk:
                return None
            self.buf += chunk
        line, self.buf = self.buf.split(b"\n", 1)
        return line

    def raw(self, line, timeout=None):
        """Send one already-encoded command line, return the decoded reply."""
        if self.record:
            self.log.append(line)
        try:
            self.proc.stdin.write(line.encode("latin-1") + b"\n")
        except (BrokenPipeError, OSError):
            rc = self.proc.wait()
            err = self._stderr()
            self.start_after_death()
            raise DrvDied("driver gone before command", rc, err)
        try:
            rep = self._readline(timeout or self.timeout)
        except DrvTimeout:
            self.proc.kill()
            self.proc.wait()
            self.start_after_death()
            raise
        if rep is None:
            rc = self.proc.wait()
            err = self._stderr()
            self.start_after_death()
            raise DrvDied("driver died (rc=%s)" % rc, rc, err)
        d = json.loads(rep.decode("latin-1"))
        if "fatal" in d:
            rc = self.proc.wait()
            err = self._stderr()
            self.start_after_death()
            raise DrvDied("driver fatal: %s" % d["fatal"], rc, err, fatal=d["fatal"])
        return d

    def start_after_death(self):
        log = self.log
        self.proc = None
        self.start()
        self.dead_log = log

    def cmd(self, *tokens, timeout=None):
        return self.raw(cmdline(*tokens), timeout)

    # ---- conveniences -------------------------------------------------
    def new(self, kind="c"):
        return self.cmd("new", kind)

    def call(self, target, binding, fn, *args, timeout=None):
        d = self.cmd("call", target, binding, fn, *args, timeout=timeout)
        if "exc" in d:
            raise RuntimeError("vdrv: %s (%s %s %s)" % (d["exc"], target, binding, fn))
        if "exit" in d:
            return d
        return d["r"]

    def obs(self, target, binding="c", flags="gstcu"):
        return self.cmd("obs", target, binding, flags)

    def files(self):
        return self.cmd("files")["files"]

    def fork(self):
        """The driver forks; the child (a copy of every live instance) serves the following commands until endfork()."""
        r = self.cmd("fork")
        if "forked" not in r:
            raise RuntimeError("fork failed: %r" % (r,))

    def endfork(self):
        r = self.cmd("endfork")
        if "endfork" not in r:
            raise RuntimeError("endfork failed: %r" % (r,))

    def reset(self):
        self.cmd("reset")
        self.log = []

    def script(self):
        return "\n".join(self.log) + "\n"


def table_rows(sel_entry):
    """Rows of an observed table as list of dict heading->cell (row 0 = headings)."""
    t = sel_entry.get("table") or []
    if not t:
        return [], []
    heads = t[0]
    return heads, [dict(zip(heads, r)) for r in t[1:]]
