// vdrv - op-script driver around the real IPhreeqc API (C, C++ and Fortran-glue bindings).
//
// Input  : one command per line; tokens separated by TAB; escapes \\ \n \t \r \xHH; the token \N is a NULL pointer.
// Output : one JSON object per command on the protocol fd (a dup of the original stdout; the process's own
//          stdout is redirected to ./stdout.txt so that Output*() API calls cannot corrupt the protocol).
// A command file is a replay artefact: `vdrv --dir D --script file` re-executes it with no explorer involved.
#include <cstdio>
#include <cstdlib>
#include <cstring>
#include <cstdint>
#include <cmath>
#include <string>
#include <vector>
#include <list>
#include <map>
#include <algorithm>
#include <stdexcept>
#include <unistd.h>
#include <fcntl.h>
#include <dirent.h>
#include <signal.h>
#include <dlfcn.h>
#include <sys/prctl.h>
#include <sys/stat.h>
#include <sys/wait.h>

#include "IPhreeqc.hpp"
#include "IPhreeqc.h"
#include "Var.h"
#ifndef IPHREEQC_NO_FORTRAN_MODULE
#include "IPhreeqc_interface_F.h"
#endif
#ifdef VDRV_WHITEBOX
#include "Phreeqc.h"
#include "StorageBin.h"
#include "Serializer.h"
#include "Solution.h"
#endif

static int PROTO = 1;
static bool in_op = false;
static int fork_depth = 0;

static void pwrite_all(const std::string &s) {
  size_t off = 0;
  while (off < s.size()) {
    ssize_t k = write(PROTO, s.data() + off, s.size() - off);
    if (k <= 0) _exit(71);
    off += (size_t)k;
  }
}

// ---------------------------------------------------------------- JSON output helpers
static std::string jstr(const char *p, size_t n) {
  std::string o = "\"";
  char b[8];
  for (size_t i = 0; i < n; i++) {
    unsigned char c = (unsigned char)p[i];
    if (c == '"') o += "\\\"";
    else if (c == '\\') o += "\\\\";
    else if (c == '\n') o += "\\n";
    else if (c == '\t') o += "\\t";
    else if (c == '\r') o += "\\r";
    else if (c < 0x20 || c >= 0x7f) { snprintf(b, sizeof b, "\\u%04x", c); o += b; }  // bytes as latin-1 code points
    else o += (char)c;
  }
  o += '"';
  return o;
}
static std::string jstr(const std::string &s) { return jstr(s.data(), s.size()); }
static std::string jcstr(const char *p) { return p ? jstr(p, strlen(p)) : std::string("null"); }
static std::string jint(long v) { return std::to_string(v); }
static std::string jdbl(double d) {
  if (std::isnan(d)) return "NaN";
  if (std::isinf(d)) return d > 0 ? "Infinity" : "-Infinity";
  char b[40];
  snprintf(b, sizeof b, "%.17g", d);
  if (!strpbrk(b, ".eE")) strcat(b, ".0");
  return b;
}
static std::string jvar(const VAR &v) {
  switch (v.type) {
    case TT_EMPTY: return "null";
    case TT_ERROR: return "{\"e\":" + jint((long)v.vresult) + "}";
    case TT_LONG: return "{\"l\":" + jint(v.lVal) + "}";
    case TT_DOUBLE: return jdbl(v.dVal);
    case TT_STRING: return jcstr(v.sVal);
  }
  return "{\"badtype\":" + jint((long)v.type) + "}";
}

// ---------------------------------------------------------------- interposed process exits
struct ExitCalled { int code; };
typedef void (*exit_fn)(int);
extern "C" void exit(int code) {
  if (in_op) throw ExitCalled{code};
  static exit_fn real = (exit_fn)dlsym(RTLD_NEXT, "exit");
  real(code);
  _exit(code);
}
static void fatal_sig(int sig) {
  char b[64];
  int n = snprintf(b, sizeof b, "{\"fatal\":\"signal %d\"}\n", sig);
  ssize_t k = write(PROTO, b, (size_t)n);
  (void)k;
  _exit(72);
}
extern "C" void __sanitizer_print_stack_trace(void) __attribute__((weak));
extern "C" void abort(void) {
  if (__sanitizer_print_stack_trace) __sanitizer_print_stack_trace();   // instrumented build: who called abort / std::terminate (stderr)
  const char *m = "{\"fatal\":\"abort\"}\n";
  ssize_t k = write(PROTO, m, strlen(m));
  (void)k;
  _exit(73);
}

// ---------------------------------------------------------------- instances
struct Slot { int id; IPhreeqc *obj; bool cpp_owned; bool alive; };
static std::vector<Slot> slots;

#ifdef VDRV_WHITEBOX
class WB : public IPhreeqc { public: Phreeqc *P() { return this->PhreeqcPtr; } };
#endif
// read-only peek into the protected registry (the driver is single threaded)
class Peek : public IPhreeqc {
 public:
  static IPhreeqc *find(int id) {
    if (id < 0) return nullptr;
    auto it = IPhreeqc::Instances.find((size_t)id);
    return it == IPhreeqc::Instances.end() ? nullptr : it->second;
  }
  static long count() { return (long)IPhreeqc::Instances.size(); }
};

static double basic_cb(double x1, double x2, const char *str, void *cookie) {
  return x1 + 2.0 * x2 + (double)strlen(str ? str : "") + (cookie ? 1000.0 : 0.0);
}

struct Target { int id; IPhreeqc *obj; int slot; };
static Target target(const std::string &t) {
  Target r{-1, nullptr, -1};
  if (t.size() < 2) throw std::runtime_error("bad target " + t);
  int k = atoi(t.c_str() + 1);
  if (t[0] == 's') {
    if (k < 0 || k >= (int)slots.size()) throw std::runtime_error("no slot " + t);
    r.slot = k; r.id = slots[k].id; r.obj = slots[k].alive ? slots[k].obj : nullptr;
  } else if (t[0] == 'i') {
    r.id = k; r.obj = Peek::find(k);
  } else throw std::runtime_error("bad target " + t);
  return r;
}

enum Bind { B_C, B_CPP, B_F };
static Bind bind_of(const std::string &b) {
  if (b == "c") return B_C;
  if (b == "cpp") return B_CPP;
  if (b == "f") return B_F;
  throw std::runtime_error("bad binding " + b);
}

struct Tok { std::string s; bool null; const char *c() const { return null ? nullptr : s.c_str(); } };

static std::string fbuf_json(const std::string &buf, int len) {
  return "{\"s\":" + jstr(buf) + ",\"len\":" + jint(len) + "}";
}

#ifdef IPHREEQC_NO_FORTRAN_MODULE
#define NOF throw std::runtime_error("f binding not in this variant")
#endif

// generic API call
static std::string api_call(const Target &T, Bind b, const std::string &fn, const std::vector<Tok> &a) {
  int id = T.id;
  IPhreeqc *o = T.obj;
  if (b == B_CPP && !o) throw std::runtime_error("cpp binding needs a live slot");
  auto argi = [&](size_t i) -> int { if (i >= a.size()) throw std::runtime_error("missing int arg"); return atoi(a[i].s.c_str()); };
  auto args = [&](size_t i) -> const char * { if (i >= a.size()) throw std::runtime_error("missing string arg"); return a[i].c(); };

#ifndef IPHREEQC_NO_FORTRAN_MODULE
#define INT0(N) if (fn == #N) { if (b == B_C) return jint(::N(id)); if (b == B_F) return jint(::N##F(&id)); return jint((long)o->N()); }
#define INT0V(N) if (fn == #N) { if (b == B_C) return jint(::N(id)); if (b == B_F) return jint(::N##F(&id)); o->N(); return "null"; }
#define VOID0(N) if (fn == #N) { if (b == B_C) ::N(id); else if (b == B_F) ::N##F(&id); else o->N(); return "null"; }
#define STR0NF(N) if (fn == #N) { if (b == B_C) return jcstr(::N(id)); if (b == B_F) throw std::runtime_error("no F form"); return jcstr(o->N()); }
#define STR0(N) if (fn == #N) { if (b == B_C) return jcstr(::N(id)); if (b == B_CPP) return jcstr(o->N()); \
    int L = a.size() > 0 ? argi(0) : 64; int l = L; std::string buf((size_t)(L > 0 ? L : 0), '#'); ::N##F(&id, &buf[0], &l); return fbuf_json(buf, l); }
#define STR1(N) if (fn == #N) { int n = argi(0); if (b == B_C) return jcstr(::N(id, n)); if (b == B_CPP) return jcstr(o->N(n)); \
    int L = a.size() > 1 ? argi(1) : 64; int l = L; std::string buf((size_t)(L > 0 ? L : 0), '#'); ::N##F(&id, &n, &buf[0], &l); return fbuf_json(buf, l); }
#define INT1(N) if (fn == #N) { int n = argi(0); if (b == B_C) return jint((long)::N(id, n)); if (b == B_F) return jint((long)::N##F(&id, &n)); return jint((long)o->N(n)); }
#define SETB(N) if (fn == #N) { int n = argi(0); if (b == B_C) return jint((long)::N(id, n)); if (b == B_F) return jint((long)::N##F(&id, &n)); o->N(n != 0); return "null"; }
#define SARG(N) if (fn == #N) { const char *s = args(0); if (b == B_C) return jint((long)::N(id, s)); if (b == B_F) return jint((long)::N##F(&id, (char *)s)); return jint((long)o->N(s)); }
#define SARGV(N) if (fn == #N) { const char *s = args(0); if (b == B_C) return jint((long)::N(id, s)); if (b == B_F) return jint((long)::N##F(&id, (char *)s)); o->N(s); return "null"; }
#else
#define INT0(N) if (fn == #N) { if (b == B_C) return jint(::N(id)); if (b == B_F) NOF; return jint((long)o->N()); }
#define INT0V(N) if (fn == #N) { if (b == B_C) return jint(::N(id)); if (b == B_F) NOF; o->N(); return "null"; }
#define VOID0(N) if (fn == #N) { if (b == B_C) ::N(id); else if (b == B_F) NOF; else o->N(); return "null"; }
#define STR0NF(N) if (fn == #N) { if (b == B_C) return jcstr(::N(id)); if (b == B_F) NOF; return jcstr(o->N()); }
#define STR0(N) STR0NF(N)
#define STR1(N) if (fn == #N) { int n = argi(0); if (b == B_C) return jcstr(::N(id, n)); if (b == B_F) NOF; return jcstr(o->N(n)); }
#define INT1(N) if (fn == #N) { int n = argi(0); if (b == B_C) return jint((long)::N(id, n)); if (b == B_F) NOF; return jint((long)o->N(n)); }
#define SETB(N) if (fn == #N) { int n = argi(0); if (b == B_C) return jint((long)::N(id, n)); if (b == B_F) NOF; o->N(n != 0); return "null"; }
#define SARG(N) if (fn == #N) { const char *s = args(0); if (b == B_C) return jint((long)::N(id, s)); if (b == B_F) NOF; return jint((long)o->N(s)); }
#define SARGV(N) if (fn == #N) { const char *s = args(0); if (b == B_C) return jint((long)::N(id, s)); if (b == B_F) NOF; o->N(s); return "null"; }
#endif

  INT0(GetComponentCount) INT0(GetCurrentSelectedOutputUserNumber)
  INT0(GetDumpFileOn) INT0(GetDumpStringLineCount) INT0(GetDumpStringOn)
  INT0(GetErrorFileOn) INT0(GetErrorOn) INT0(GetErrorStringLineCount) INT0(GetErrorStringOn)
  INT0(GetLogFileOn) INT0(GetLogStringLineCount) INT0(GetLogStringOn)
  INT0(GetOutputFileOn) INT0(GetOutputStringLineCount) INT0(GetOutputStringOn)
  INT0(GetSelectedOutputColumnCount) INT0(GetSelectedOutputCount) INT0(GetSelectedOutputFileOn)
  INT0(GetSelectedOutputRowCount) INT0(GetSelectedOutputStringLineCount) INT0(GetSelectedOutputStringOn)
  INT0(GetWarningStringLineCount) INT0(RunAccumulated)
  INT0V(ClearAccumulatedLines)
  VOID0(OutputAccumulatedLines) VOID0(OutputErrorString) VOID0(OutputWarningString)
  STR0(GetDumpFileName) STR0(GetErrorFileName) STR0(GetLogFileName) STR0(GetOutputFileName) STR0(GetSelectedOutputFileName)
  STR0NF(GetDumpString) STR0NF(GetErrorString) STR0NF(GetLogString) STR0NF(GetOutputString)
  STR0NF(GetSelectedOutputString) STR0NF(GetWarningString)
  STR1(GetComponent) STR1(GetDumpStringLine) STR1(GetErrorStringLine) STR1(GetLogStringLine)
  STR1(GetOutputStringLine) STR1(GetSelectedOutputStringLine) STR1(GetWarningStringLine)
  INT1(GetNthSelectedOutputUserNumber) INT1(SetCurrentSelectedOutputUserNumber)
  SETB(SetDumpFileOn) SETB(SetDumpStringOn) SETB(SetErrorFileOn) SETB(SetErrorOn) SETB(SetErrorStringOn)
  SETB(SetLogFileOn) SETB(SetLogStringOn) SETB(SetOutputFileOn) SETB(SetOutputStringOn)
  SETB(SetSelectedOutputFileOn) SETB(SetSelectedOutputStringOn)
  SARG(AccumulateLine) SARG(AddError) SARG(AddWarning) SARG(LoadDatabase) SARG(LoadDatabaseString)
  SARG(RunFile) SARG(RunString)
  SARGV(SetDumpFileName) SARGV(SetErrorFileName) SARGV(SetLogFileName) SARGV(SetOutputFileName) SARGV(SetSelectedOutputFileName)

  if (fn == "GetVersionString") {
    if (b == B_C) return jcstr(::GetVersionString());
    if (b == B_CPP) return jcstr(IPhreeqc::GetVersionString());
#ifndef IPHREEQC_NO_FORTRAN_MODULE
    int L = a.size() > 0 ? argi(0) : 64; int l = L; std::string buf((size_t)L, '#'); ::GetVersionStringF(&buf[0], &l); return fbuf_json(buf, l);
#else
    NOF;
#endif
  }
  if (fn == "GetSelectedOutputValue") {
    int row = argi(0), col = argi(1);
    VAR v; ::VarInit(&v);
    long rc;
    if (b == B_C) rc = (long)::GetSelectedOutputValue(id, row, col, &v);
    else if (b == B_CPP) rc = (long)o->GetSelectedOutputValue(row, col, &v);
    else throw std::runtime_error("use GetSelectedOutputValueF");
    std::string r = "{\"rc\":" + jint(rc) + ",\"type\":" + jint((long)v.type) + ",\"v\":" + jvar(v) + "}";
    ::VarClear(&v);
    return r;
  }
  if (fn == "GetSelectedOutputValue2" || fn == "GetSelectedOutputValueF") {
    int row = argi(0), col = argi(1);
    int L = a.size() > 2 ? argi(2) : 100;
    int vtype = -99; double d = -99.25; std::string buf((size_t)(L > 0 ? L : 0), '#');
    long rc; int l = L;
    if (fn == "GetSelectedOutputValue2") {
      rc = (long)::GetSelectedOutputValue2(id, row, col, &vtype, &d, &buf[0], (unsigned int)L);
    } else {
#ifndef IPHREEQC_NO_FORTRAN_MODULE
      rc = (long)::GetSelectedOutputValueF(&id, &row, &col, &vtype, &d, &buf[0], &l);
#else
      NOF;
#endif
    }
    return "{\"rc\":" + jint(rc) + ",\"type\":" + jint(vtype) + ",\"d\":" + jdbl(d) + ",\"s\":" + jstr(buf) + ",\"len\":" + jint(l) + "}";
  }
  if (fn == "DestroyIPhreeqc") {
    long rc;
    if (b == B_C) rc = (long)::DestroyIPhreeqc(id);
#ifndef IPHREEQC_NO_FORTRAN_MODULE
    else if (b == B_F) rc = (long)::DestroyIPhreeqcF(&id);
#endif
    else { delete o; rc = 0; }
    if (T.slot >= 0 && (rc == 0)) { slots[T.slot].alive = false; slots[T.slot].obj = nullptr; }
    for (auto &s : slots) if (s.alive && s.id == id && rc == 0 && T.slot < 0) { s.alive = false; s.obj = nullptr; }
    return jint(rc);
  }
  if (fn == "SetBasicCallback") {
    int on = argi(0);
    if (b == B_C) return jint((long)::SetBasicCallback(id, on ? basic_cb : nullptr, on == 2 ? (void *)&slots : nullptr));
    if (b == B_CPP) { o->SetBasicCallback(on ? basic_cb : nullptr, on == 2 ? (void *)&slots : nullptr); return "null"; }
    throw std::runtime_error("no F form");
  }
  // C++-only
  if (fn == "GetId") { if (!o) throw std::runtime_error("cpp only"); return jint(o->GetId()); }
  if (fn == "GetAccumulatedLines") { if (!o) throw std::runtime_error("cpp only"); return jstr(o->GetAccumulatedLines()); }
  if (fn == "ListComponents") {
    if (!o) throw std::runtime_error("cpp only");
    std::list<std::string> l = o->ListComponents();
    std::string r = "["; bool first = true;
    for (auto &s : l) { if (!first) r += ","; first = false; r += jstr(s); }
    return r + "]";
  }
  throw std::runtime_error("unknown function " + fn);
}

// ---------------------------------------------------------------- observation of one instance through one binding
// flags: g getters/switches/file names, s strings (C/C++ only), l line arrays of every stream, c components,
//        a accumulated lines (cpp), u per-user-number info (iterates the current user number and restores it), t tables.
// Binding f uses the *F functions with their 1-based indices and caller-supplied buffers of FLEN characters; string
// results then appear as {"s":buffer,"len":reported length}.
static const int FLEN = 400;
static std::string observe(const Target &T, Bind b, const std::string &flags) {
  std::vector<Tok> none;
  const int base = (b == B_F) ? 1 : 0;
  auto call = [&](const char *fn) { return api_call(T, b, fn, none); };
  auto call1 = [&](const char *fn, int n) { std::vector<Tok> a{Tok{std::to_string(n), false}}; return api_call(T, b, fn, a); };
  auto calln = [&](const char *fn) {  // file-name style getter
    if (b != B_F) return call(fn);
    std::vector<Tok> a{Tok{std::to_string(FLEN), false}};
    return api_call(T, b, fn, a);
  };
  auto line = [&](const char *fn, int i) {
    std::vector<Tok> a{Tok{std::to_string(i + base), false}};
    if (b == B_F) a.push_back(Tok{std::to_string(FLEN), false});
    return api_call(T, b, fn, a);
  };
  auto lines = [&](const char *fn, const char *cnt) {
    int n = atoi(call(cnt).c_str());
    std::string l = "[";
    for (int i = 0; i < n; i++) { if (i) l += ","; l += line(fn, i); }
    return l + "]";
  };
  std::string r = "{";
  bool first = true;
  auto put = [&](const std::string &k, const std::string &v) { if (!first) r += ","; first = false; r += "\"" + k + "\":" + v; };
  auto has = [&](char c) { return flags.find(c) != std::string::npos; };
  if (has('g')) {
    static const char *G[] = {"GetOutputFileOn", "GetOutputStringOn", "GetErrorFileOn", "GetErrorStringOn", "GetErrorOn", "GetLogFileOn",
                              "GetLogStringOn", "GetDumpFileOn", "GetDumpStringOn", "GetSelectedOutputFileOn", "GetSelectedOutputStringOn",
                              "GetCurrentSelectedOutputUserNumber", "GetSelectedOutputCount", "GetSelectedOutputRowCount",
                              "GetSelectedOutputColumnCount", "GetComponentCount", "GetOutputStringLineCount", "GetErrorStringLineCount",
                              "GetWarningStringLineCount", "GetLogStringLineCount", "GetDumpStringLineCount", "GetSelectedOutputStringLineCount"};
    for (auto g : G) put(g, call(g));
    static const char *N[] = {"GetOutputFileName", "GetErrorFileName", "GetLogFileName", "GetDumpFileName", "GetSelectedOutputFileName"};
    for (auto g : N) put(g, calln(g));
  }
  if (has('s') && b != B_F) {
    static const char *S[] = {"GetOutputString", "GetErrorString", "GetWarningString", "GetLogString", "GetDumpString", "GetSelectedOutputString"};
    for (auto g : S) put(g, call(g));
  }
  if (has('l')) {
    put("OutputLines", lines("GetOutputStringLine", "GetOutputStringLineCount"));
    put("ErrorLines", lines("GetErrorStringLine", "GetErrorStringLineCount"));
    put("WarningLines", lines("GetWarningStringLine", "GetWarningStringLineCount"));
    put("LogLines", lines("GetLogStringLine", "GetLogStringLineCount"));
    put("DumpLines", lines("GetDumpStringLine", "GetDumpStringLineCount"));
  }
  if (has('c')) put("components", lines("GetComponent", "GetComponentCount"));
  if (has('a') && T.obj && b != B_F) put("accumulated", jstr(T.obj->GetAccumulatedLines()));
  if (has('u') || has('t')) {
    int cur = atoi(call("GetCurrentSelectedOutputUserNumber").c_str());
    int cnt = atoi(call("GetSelectedOutputCount").c_str());
    std::vector<int> users;
    for (int i = 0; i < cnt; i++) users.push_back(atoi(call1("GetNthSelectedOutputUserNumber", i + base).c_str()));
    std::string ul = "[";
    for (size_t i = 0; i < users.size(); i++) { if (i) ul += ","; ul += jint(users[i]); }
    put("users", ul + "]");
    std::string sel = "{";
    for (size_t i = 0; i < users.size(); i++) {
      if (i) sel += ",";
      call1("SetCurrentSelectedOutputUserNumber", users[i]);
      int rows = atoi(call("GetSelectedOutputRowCount").c_str());
      int cols = atoi(call("GetSelectedOutputColumnCount").c_str());
      sel += "\"" + jint(users[i]) + "\":{\"rows\":" + jint(rows) + ",\"cols\":" + jint(cols);
      sel += ",\"fileon\":" + call("GetSelectedOutputFileOn") + ",\"stron\":" + call("GetSelectedOutputStringOn");
      sel += ",\"fname\":" + calln("GetSelectedOutputFileName");
      sel += ",\"nlines\":" + call("GetSelectedOutputStringLineCount");
      if (has('s') && b != B_F) sel += ",\"str\":" + call("GetSelectedOutputString");
      if (has('l')) sel += ",\"lines\":" + lines("GetSelectedOutputStringLine", "GetSelectedOutputStringLineCount");
      if (has('t')) {
        int trows = (b == B_F && cols > 0) ? rows + 1 : rows;  // RowCountF excludes the heading row
        sel += ",\"table\":[";
        for (int rr = 0; rr < trows; rr++) {
          if (rr) sel += ",";
          sel += "[";
          for (int cc = 0; cc < cols; cc++) {
            if (cc) sel += ",";
            if (b == B_F) {
              std::vector<Tok> a{Tok{std::to_string(rr), false}, Tok{std::to_string(cc + 1), false}, Tok{std::to_string(FLEN), false}};
              sel += api_call(T, b, "GetSelectedOutputValueF", a);
            } else {
              VAR v; ::VarInit(&v);
              long rc = (b == B_CPP) ? (long)T.obj->GetSelectedOutputValue(rr, cc, &v) : (long)::GetSelectedOutputValue(T.id, rr, cc, &v);
              if (rc != 0 && v.type != TT_ERROR) sel += "{\"rc\":" + jint(rc) + "}"; else sel += jvar(v);
              ::VarClear(&v);
            }
          }
          sel += "]";
        }
        sel += "]";
      }
      sel += "}";
    }
    put("sel", sel + "}");
    call1("SetCurrentSelectedOutputUserNumber", cur);
    put("cur_after", call("GetCurrentSelectedOutputUserNumber"));
  }
  return r + "}";
}

// ---------------------------------------------------------------- files in the scratch directory
static std::string read_file(const std::string &p, bool *ok = nullptr) {
  std::string s;
  FILE *f = fopen(p.c_str(), "rb");
  if (ok) *ok = f != nullptr;
  if (!f) return s;
  char b[65536]; size_t n;
  while ((n = fread(b, 1, sizeof b, f)) > 0) s.append(b, n);
  fclose(f);
  return s;
}
static std::string list_files(bool content) {
  std::vector<std::string> names;
  DIR *d = opendir(".");
  if (d) {
    while (dirent *e = readdir(d)) {
      std::string n = e->d_name;
      if (n == "." || n == ".." || n == "stdout.txt" || n == "stderr.txt") continue;
      struct stat st;
      if (stat(n.c_str(), &st) == 0 && S_ISREG(st.st_mode)) names.push_back(n);
    }
    closedir(d);
  }
  std::sort(names.begin(), names.end());
  std::string r = "{";
  for (size_t i = 0; i < names.size(); i++) {
    if (i) r += ",";
    r += jstr(names[i]) + ":";
    if (content) r += jstr(read_file(names[i])); else { struct stat st; stat(names[i].c_str(), &st); r += jint((long)st.st_size); }
  }
  return r + "}";
}
static void rm_files() {
  DIR *d = opendir(".");
  if (!d) return;
  std::vector<std::string> names;
  while (dirent *e = readdir(d)) {
    std::string n = e->d_name;
    if (n == "." || n == ".." || n == "stdout.txt" || n == "stderr.txt") continue;
    names.push_back(n);
  }
  closedir(d);
  for (auto &n : names) unlink(n.c_str());
}

// ---------------------------------------------------------------- command parsing / dispatch
static std::vector<Tok> split(const std::string &line) {
  std::vector<Tok> out;
  Tok cur{"", false};
  std::string raw;
  auto flush = [&]() {
    if (raw == "\\N") { cur.null = true; cur.s.clear(); }
    out.push_back(cur); cur = Tok{"", false}; raw.clear();
  };
  for (size_t i = 0; i < line.size(); i++) {
    char c = line[i];
    if (c == '\t') { flush(); continue; }
    raw += c;
    if (c == '\\' && i + 1 < line.size()) {
      char n = line[++i];
      raw += n;
      if (n == 'n') cur.s += '\n';
      else if (n == 't') cur.s += '\t';
      else if (n == 'r') cur.s += '\r';
      else if (n == '\\') cur.s += '\\';
      else if (n == 'x' && i + 2 < line.size()) { char h[3] = {line[i + 1], line[i + 2], 0}; cur.s += (char)strtol(h, nullptr, 16); i += 2; }
      else if (n == 'N') {}
      else cur.s += n;
    } else cur.s += c;
  }
  flush();
  return out;
}

static std::string do_cmd(const std::vector<Tok> &t) {
  const std::string &op = t[0].s;
  if (op == "new") {
    const std::string k = t.size() > 1 ? t[1].s : "c";
    Slot s{-1, nullptr, false, false};
    if (k == "cpp") {
#ifdef VDRV_WHITEBOX
      s.obj = new WB;
#else
      s.obj = new IPhreeqc;
#endif
      s.cpp_owned = true; s.id = s.obj->GetId(); s.alive = true;
    } else {
#ifndef IPHREEQC_NO_FORTRAN_MODULE
      s.id = (k == "f") ? ::CreateIPhreeqcF() : ::CreateIPhreeqc();
#else
      s.id = ::CreateIPhreeqc();
#endif
      s.alive = s.id >= 0;
      // the C API offers no object access; the registry does (used for cpp-binding calls on C-created instances)
      s.obj = Peek::find(s.id);
    }
    slots.push_back(s);
    return "{\"slot\":" + jint((long)slots.size() - 1) + ",\"id\":" + jint(s.id) + "}";
  }
  if (op == "call") {
    if (t.size() < 4) throw std::runtime_error("call target binding fn args..");
    Target T = target(t[1].s);
    Bind b = bind_of(t[2].s);
    std::vector<Tok> a(t.begin() + 4, t.end());
    return "{\"r\":" + api_call(T, b, t[3].s, a) + "}";
  }
  if (op == "obs") {
    Target T = target(t[1].s);
    Bind b = bind_of(t[2].s);
    return observe(T, b, t.size() > 3 ? t[3].s : "gstcu");
  }
  if (op == "lines") {  // lines target binding Fn from to
    Target T = target(t[1].s);
    Bind b = bind_of(t[2].s);
    int lo = atoi(t[4].s.c_str()), hi = atoi(t[5].s.c_str());
    std::string r = "[";
    for (int i = lo; i <= hi; i++) {
      if (i > lo) r += ",";
      std::vector<Tok> a{Tok{std::to_string(i), false}};
      if (t.size() > 6) a.push_back(t[6]);
      r += api_call(T, b, t[3].s, a);
    }
    return "{\"r\":" + r + "]}";
  }
  if (op == "cells") {  // cells target fn r0 r1 c0 c1 [len] : every cell of a rectangle through one accessor
    Target T = target(t[1].s);
    const std::string &fn = t[2].s;
    int r0 = atoi(t[3].s.c_str()), r1 = atoi(t[4].s.c_str()), c0 = atoi(t[5].s.c_str()), c1 = atoi(t[6].s.c_str());
    std::string r = "[";
    for (int rr = r0; rr <= r1; rr++) {
      if (rr > r0) r += ",";
      r += "[";
      for (int cc = c0; cc <= c1; cc++) {
        if (cc > c0) r += ",";
        std::vector<Tok> a{Tok{std::to_string(rr), false}, Tok{std::to_string(cc), false}};
        if (t.size() > 7) a.push_back(t[7]);
        std::string f = fn; Bind b = B_C;
        if (fn == "cpp") { f = "GetSelectedOutputValue"; b = B_CPP; }
        else if (fn == "c") { f = "GetSelectedOutputValue"; }
        else if (fn == "c2") { f = "GetSelectedOutputValue2"; }
        else if (fn == "f") { f = "GetSelectedOutputValueF"; b = B_F; }
        r += api_call(T, b, f, a);
      }
      r += "]";
    }
    return "{\"r\":" + r + "]}";
  }
  if (op == "files") return "{\"files\":" + list_files(t.size() < 2 || t[1].s != "sizes") + "}";
  if (op == "rmfiles") { rm_files(); return "{}"; }
  if (op == "writefile") {  // writefile name content
    FILE *f = fopen(t[1].s.c_str(), "wb");
    if (!f) throw std::runtime_error("cannot write " + t[1].s);
    fwrite(t[2].s.data(), 1, t[2].s.size(), f); fclose(f);
    return "{}";
  }
  if (op == "mkdir") { mkdir(t[1].s.c_str(), 0777); return "{}"; }
  if (op == "stdout") { fflush(stdout); return "{\"r\":" + jstr(read_file("stdout.txt")) + "}"; }
  if (op == "reset") {
    for (auto &s : slots) if (s.alive) { if (s.cpp_owned) delete s.obj; else ::DestroyIPhreeqc(s.id); }
    slots.clear(); rm_files();
    return "{}";
  }
  if (op == "live") {  // which slot ids are live according to the library (C getter with documented invalid result)
    std::string r = "[";
    for (size_t i = 0; i < slots.size(); i++) { if (i) r += ","; r += slots[i].alive ? "1" : "0"; }
    return "{\"r\":" + r + "]}";
  }
#ifdef VDRV_WHITEBOX
  if (op == "wb") {  // wb target what [n]
    Target T = target(t[1].s);
    if (!T.obj || !slots[T.slot].cpp_owned) throw std::runtime_error("wb needs a cpp-created slot");
    Phreeqc *P = static_cast<WB *>(T.obj)->P();
    const std::string &what = t[2].s;
    if (what == "storagebin_roundtrip") {  // engine -> cxxStorageBin -> engine for every cell
      cxxStorageBin sb;
      P->phreeqc2cxxStorageBin(sb);
      P->cxxStorageBin2phreeqc(sb);
      return "{}";
    }
    if (what == "storagebin_cell") {
      int n = atoi(t[3].s.c_str());
      cxxStorageBin sb;
      P->phreeqc2cxxStorageBin(sb, n);
      P->cxxStorageBin2phreeqc(sb, n);
      return "{}";
    }
    if (what == "serialize_roundtrip") {  // cells lo..hi: Serializer -> Deserialize back into the engine
      int lo = t.size() > 3 ? atoi(t[3].s.c_str()) : 0, hi = t.size() > 4 ? atoi(t[4].s.c_str()) : 1000;
      Serializer ser;
      ser.Serialize(*P, lo, hi, true, true);
      ser.Deserialize(*P, ser.GetDictionary(), ser.GetInts(), ser.GetDoubles());
      return "{\"ints\":" + jint((long)ser.GetInts().size()) + ",\"doubles\":" + jint((long)ser.GetDoubles().size()) + "}";
    }
    throw std::runtime_error("unknown wb op " + what);
  }
#endif
  if (op == "heapshuffle") {
    // Leave the allocator's small free lists filled in ascending address order: tcache and fast bins hand blocks out last-in
    // first-out, so the next small allocations of the library come at DESCENDING addresses (a fresh heap grows upwards).
    // Results of the library must not depend on where its blocks happen to lie.
    static const size_t sizes[] = {16, 24, 40, 56, 72, 88, 104, 136, 200, 264};
    std::vector<void *> blocks;
    int n = t.size() > 1 ? atoi(t[1].s.c_str()) : 64;
    for (int r = 0; r < 2 * n; r++)
      for (size_t z : sizes) { void *q = malloc(z); if (q) { memset(q, 0x5a, z); blocks.push_back(q); } }
    // every second block is freed, in ascending order; the blocks in between stay allocated (kept for the life of the
    // process) so that the freed ones cannot be merged back into one large block
    size_t freed = 0;
    for (size_t i = 0; i < blocks.size(); i += 2) { free(blocks[i]); freed++; }
    blocks.clear();
    return "{\"shuffled\":" + jint((long)freed) + "}";
  }
  if (op == "registry") return "{\"count\":" + jint(Peek::count()) + "}";
  if (op == "ping") return "{\"pong\":1}";
  throw std::runtime_error("unknown op " + op);
}

static bool read_line(FILE *f, std::string &line) {
  line.clear();
  int c;
  while ((c = fgetc(f)) != EOF) {
    if (c == '\n') return true;
    line += (char)c;
  }
  return !line.empty();
}

int main(int argc, char **argv) {
  const char *dir = nullptr, *script = nullptr;
  for (int i = 1; i < argc; i++) {
    if (!strcmp(argv[i], "--dir") && i + 1 < argc) dir = argv[++i];
    else if (!strcmp(argv[i], "--script") && i + 1 < argc) script = argv[++i];
  }
  if (!script) prctl(PR_SET_PDEATHSIG, SIGKILL);   // a driver never outlives the check process that owns it (a hung library call would spin on)
  FILE *in = stdin;
  if (script) { in = fopen(script, "rb"); if (!in) { perror(script); return 2; } }
  PROTO = dup(1);
  if (dir) { mkdir(dir, 0777); if (chdir(dir) != 0) { perror(dir); return 2; } }
  if (!freopen("stdout.txt", "wb", stdout)) return 2;
  signal(SIGSEGV, fatal_sig); signal(SIGBUS, fatal_sig); signal(SIGFPE, fatal_sig); signal(SIGILL, fatal_sig);
  signal(SIGPIPE, SIG_IGN);
  std::string line;
  while (read_line(in, line)) {
    if (line.empty() || line[0] == '#') { if (script) continue; }
    std::vector<Tok> t = split(line);
    if (t.empty() || t[0].s.empty()) { pwrite_all("{}\n"); continue; }
    if (t[0].s == "quit") break;
    if (t[0].s == "fork") {  // child continues with a copy of the whole process state; parent sleeps until the child ends
      fflush(stdout);
      pid_t c = fork();
      if (c < 0) { pwrite_all("{\"exc\":\"fork failed\"}\n"); continue; }
      if (c == 0) { prctl(PR_SET_PDEATHSIG, SIGKILL); fork_depth++; pwrite_all("{\"forked\":" + jint(fork_depth) + "}\n"); continue; }
      int st = 0;
      waitpid(c, &st, 0);
      if (WIFEXITED(st) && WEXITSTATUS(st) == 0) pwrite_all("{\"endfork\":" + jint(fork_depth) + "}\n");
      else { pwrite_all("{\"fatal\":\"forked child died status " + jint(st) + "\"}\n"); _exit(74); }
      continue;
    }
    if (t[0].s == "endfork") {
      if (fork_depth == 0) { pwrite_all("{\"exc\":\"not in a fork\"}\n"); continue; }
      fflush(stdout);
      _exit(0);
    }
    std::string r;
    in_op = true;
    try {
      r = do_cmd(t);
    } catch (const ExitCalled &e) {
      r = "{\"exit\":" + jint(e.code) + "}";
    } catch (const std::exception &e) {
      r = "{\"exc\":" + jstr(std::string(e.what())) + "}";
    } catch (...) {
      r = "{\"exc\":\"unknown exception\"}";
    }
    in_op = false;
    pwrite_all(r + "\n");
  }
  in_op = false;
  fflush(stdout);
  _exit(0);
}
