// freerun - the C06 bodies free-running on real threads under the real ThreadSanitizer runtime (companion pass:
// keeps unsynchronised heap / libc accesses visible; it samples schedules and is not the deciding step).
// usage: freerun <mini.dat> <repo database dir> <scratch dir> <repetitions> body...
#include <pthread.h>
#include <unistd.h>
#include <cstdio>
#include <cstdlib>
#include <cstring>
#include <string>
#include <vector>
#include "bodies.h"

static const int NT = 4;
static std::vector<const BodyDef *> bodies;
static int reps = 1;
static std::vector<unsigned long long> hashes[NT];
static std::vector<int> ids[NT];
static bool wrong[NT];

static void *thread_main(void *arg) {
  int t = (int)(long)arg;
  for (int r = 0; r < reps; r++)
    for (size_t j = 0; j < bodies.size(); j++) {
      const BodyDef *b = bodies[(j + t * 3 + r) % bodies.size()];
      BodyOut o;
      b->fn(t, o);
      hashes[t].push_back(fnv1a(std::string(b->name) + "\n" + o.obs));
      for (int id : o.ids) ids[t].push_back(id);
      if (o.wrong_object) wrong[t] = true;
    }
  return nullptr;
}

int main(int argc, char **argv) {
  if (argc < 6) { fprintf(stderr, "usage: freerun mini dbdir scratch reps body...\n"); return 2; }
  bodies_init(argv[1], argv[2]);
  if (chdir(argv[3]) != 0) { perror(argv[3]); return 2; }
  reps = atoi(argv[4]);
  for (int i = 5; i < argc; i++) {
    const BodyDef *b = body_by_name(argv[i]);
    if (!b) { fprintf(stderr, "unknown body %s\n", argv[i]); return 2; }
    bodies.push_back(b);
  }
  // sequential reference hashes
  std::vector<unsigned long long> ref;
  for (auto *b : bodies) { BodyOut o; b->fn(0, o); ref.push_back(fnv1a(std::string(b->name) + "\n" + o.obs)); }
  pthread_t th[NT];
  for (long t = 0; t < NT; t++) pthread_create(&th[t], nullptr, thread_main, (void *)t);
  for (int t = 0; t < NT; t++) pthread_join(th[t], nullptr);
  int bad = 0;
  std::vector<int> all;
  for (int t = 0; t < NT; t++) {
    for (auto h : hashes[t]) { bool ok = false; for (auto r : ref) if (r == h) ok = true; if (!ok) bad++; }
    for (int id : ids[t]) all.push_back(id);
    if (wrong[t]) { printf("wrong object reached in thread %d\n", t); bad++; }
  }
  for (size_t i = 0; i < all.size(); i++) for (size_t j = i + 1; j < all.size(); j++) if (all[i] == all[j]) { printf("duplicate id %d\n", all[i]); bad++; }
  if (registry_size() != 0) { printf("registry not empty: %zu\n", registry_size()); bad++; }
  printf("threads %d repetitions %d bodies %zu observations differing from the sequential reference or other problems: %d\n", NT, reps, bodies.size(), bad);
  return bad ? 3 : 0;
}
