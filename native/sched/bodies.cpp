// Thread bodies for property C06 (see bodies.h).  Compiled with -fno-access-control only for registry_size().
#include "bodies.h"
#include <cstdio>
#include <cstdlib>
#include <cstring>
#include "IPhreeqc.hpp"
#include "IPhreeqc.h"
#include "Var.h"

static std::string MINI;       // text of data/c06/mini.dat
static std::string MINI_PITZ, MINI_SIT, MINI_LLNL;   // mini.dat plus a PITZER / SIT / LLNL_AQUEOUS_MODEL_PARAMETERS block (the other activity models)
static std::string DBDIR;      // <repo>/database
static std::string IN_SPEC, IN_KIN, IN_BASIC, IN_ADV, IN_TRN, IN_TRM, IN_INV, IN_ERR, IN_ERR2, IN_BRINE, IN_RX;   // data/c06/inputs/*.in

unsigned long long fnv1a(const std::string &s) {
  unsigned long long h = 1469598103934665603ULL;
  for (unsigned char c : s) { h ^= c; h *= 1099511628211ULL; }
  return h;
}

static std::string readfile(const char *f) {
  FILE *fp = fopen(f, "rb");
  if (!fp) { perror(f); exit(2); }
  std::string s; char b[65536]; size_t n;
  while ((n = fread(b, 1, sizeof b, fp)) > 0) s.append(b, n);
  fclose(fp);
  return s;
}

void bodies_init(const char *mini, const char *dbdir) {
  MINI = readfile(mini); DBDIR = dbdir;
  std::string d(mini);
  d = d.substr(0, d.rfind('/'));
  MINI_PITZ = readfile((d + "/mini_pitzer.dat").c_str()); MINI_SIT = readfile((d + "/mini_sit.dat").c_str()); MINI_LLNL = readfile((d + "/mini_llnl.dat").c_str());
  d += "/inputs/";
  IN_BRINE = readfile((d + "brine.in").c_str());
  IN_RX = readfile((d + "rx.in").c_str());
  IN_SPEC = readfile((d + "spec.in").c_str()); IN_KIN = readfile((d + "kin.in").c_str()); IN_BASIC = readfile((d + "basic.in").c_str());
  IN_ADV = readfile((d + "adv.in").c_str()); IN_TRN = readfile((d + "trn.in").c_str()); IN_TRM = readfile((d + "trm.in").c_str());
  IN_INV = readfile((d + "inv.in").c_str()); IN_ERR = readfile((d + "err.in").c_str()); IN_ERR2 = readfile((d + "err2.in").c_str());
}
size_t registry_size() { return IPhreeqc::Instances.size(); }

// ---------------------------------------------------------------- observation helpers
static void add(BodyOut &o, const char *tag, const char *s) {
  o.obs += tag; o.obs += "=[";
  // mask the elapsed-time banner (the only wall-clock dependent text the library prints)
  const char *p = s ? s : "(null)";
  while (*p) {
    const char *e = strchr(p, '\n');
    size_t n = e ? (size_t)(e - p) + 1 : strlen(p);
    // ... and the rows of dashes around it, whose length follows the number of digits of the elapsed time
    bool dashes = n >= 4;
    for (size_t i = 0; dashes && i < n; i++) if (p[i] != '-' && p[i] != '\n') dashes = false;
    if (!dashes && !(n >= 16 && memmem(p, n, "End of Run after", 16))) o.obs.append(p, n);
    p += n;
  }
  o.obs += "]\n";
}
static void addi(BodyOut &o, const char *tag, long v) { char b[64]; snprintf(b, sizeof b, "%s=%ld\n", tag, v); o.obs += b; }

static void add_tables(BodyOut &o, int id) {
  int nsel = GetSelectedOutputCount(id);
  addi(o, "selcount", nsel);
  for (int k = 0; k < nsel; k++) {
    int n = GetNthSelectedOutputUserNumber(id, k);
    SetCurrentSelectedOutputUserNumber(id, n);
    int R = GetSelectedOutputRowCount(id), C = GetSelectedOutputColumnCount(id);
    char b[96]; snprintf(b, sizeof b, "table %d %dx%d\n", n, R, C); o.obs += b;
    for (int r = 0; r < R; r++) {
      for (int c = 0; c < C; c++) {
        VAR v; VarInit(&v);
        IPQ_RESULT rc = GetSelectedOutputValue(id, r, c, &v);
        if (rc != IPQ_OK) { snprintf(b, sizeof b, "E%d", (int)rc); o.obs += b; }
        else if (v.type == TT_DOUBLE) { snprintf(b, sizeof b, "%.17g", v.dVal); o.obs += b; }
        else if (v.type == TT_LONG) { snprintf(b, sizeof b, "L%ld", v.lVal); o.obs += b; }
        else if (v.type == TT_STRING) { o.obs += "S"; o.obs += v.sVal; }
        else if (v.type == TT_EMPTY) o.obs += "-";
        else { snprintf(b, sizeof b, "T%d", (int)v.type); o.obs += b; }
        o.obs += (c + 1 < C) ? "\t" : "\n";
        VarClear(&v);
      }
    }
    add(o, "selstring", GetSelectedOutputString(id));
  }
}

static void add_all(BodyOut &o, int id, int rc) {
  addi(o, "rc", rc);
  add(o, "err", GetErrorString(id));
  add(o, "warn", GetWarningString(id));
  add(o, "out", GetOutputString(id));
  add(o, "log", GetLogString(id));
  add(o, "dump", GetDumpString(id));
  addi(o, "outlines", GetOutputStringLineCount(id));
  add_tables(o, id);
  int nc = GetComponentCount(id);
  addi(o, "ncomp", nc);
  for (int i = 0; i < nc; i++) add(o, "comp", GetComponent(id, i));
}

static void mark(int id, int tidx) { char b[32]; snprintf(b, sizeof b, "marker-t%d.dmp", tidx); SetDumpFileName(id, b); }
static void check_mark(BodyOut &o, int id, int tidx) {
  char b[32]; snprintf(b, sizeof b, "marker-t%d.dmp", tidx);
  const char *g = GetDumpFileName(id);
  if (!g || strcmp(g, b) != 0) o.wrong_object = true;
}

static int create(BodyOut &o, int tidx) {
  int id = CreateIPhreeqc();
  o.ids.push_back(id);
  addi(o, "created_ok", id >= 0);
  if (id >= 0) {
    mark(id, tidx);
    SetErrorFileOn(id, 0); SetOutputFileOn(id, 0); SetLogFileOn(id, 0); SetDumpFileOn(id, 0); SetSelectedOutputFileOn(id, 0);
  }
  return id;
}
static void strings_on(int id) { SetOutputStringOn(id, 1); SetErrorStringOn(id, 1); SetLogStringOn(id, 1); SetDumpStringOn(id, 1); SetSelectedOutputStringOn(id, 1); }

static void run_body(int tidx, BodyOut &o, const char *input, bool big_db = false, const std::string *db = nullptr) {
  int id = create(o, tidx);
  int rc = big_db ? LoadDatabase(id, (DBDIR + "/phreeqc.dat").c_str()) : LoadDatabaseString(id, (db ? *db : MINI).c_str());
  addi(o, "load", rc);
  strings_on(id);
  rc = RunString(id, input);
  check_mark(o, id, tidx);
  add_all(o, id, rc);
  addi(o, "destroy", DestroyIPhreeqc(id));
  addi(o, "after_destroy", GetOutputStringLineCount(id));   // documented: 0 lines / bad instance
}

// ---------------------------------------------------------------- inputs (data/c06/inputs/*.in, shared with the Python side)

















// ---------------------------------------------------------------- bodies
static void b_reg(int t, BodyOut &o) {
  int a = create(o, t), b = create(o, t);
  addi(o, "distinct", a != b);
  addi(o, "g1", GetOutputFileOn(a)); addi(o, "g2", GetErrorStringOn(b)); addi(o, "g3", GetCurrentSelectedOutputUserNumber(a));
  SetOutputStringOn(a, 1); addi(o, "iso", GetOutputStringOn(b));
  check_mark(o, a, t); check_mark(o, b, t);
  addi(o, "d1", DestroyIPhreeqc(a));
  int c = create(o, t);
  addi(o, "fresh", c != a && c != b);
  addi(o, "dead", GetOutputFileOn(a));
  check_mark(o, b, t); check_mark(o, c, t);
  addi(o, "d2", DestroyIPhreeqc(b)); addi(o, "d3", DestroyIPhreeqc(c)); addi(o, "d4", DestroyIPhreeqc(c));
}
static void b_spec(int t, BodyOut &o) { run_body(t, o, IN_SPEC.c_str()); }
static void b_kin(int t, BodyOut &o) { run_body(t, o, IN_KIN.c_str()); }
static void b_basic(int t, BodyOut &o) { run_body(t, o, IN_BASIC.c_str()); }
static void b_adv(int t, BodyOut &o) { run_body(t, o, IN_ADV.c_str()); }
static void b_trn(int t, BodyOut &o) { run_body(t, o, IN_TRN.c_str()); }
static void b_trm(int t, BodyOut &o) { run_body(t, o, IN_TRM.c_str()); }
static void b_inv(int t, BodyOut &o) { run_body(t, o, IN_INV.c_str()); }
static void b_load(int t, BodyOut &o) { run_body(t, o, IN_SPEC.c_str(), true); }
static void b_rx(int t, BodyOut &o) { run_body(t, o, IN_RX.c_str()); }      // surface (default, -diffuse_layer, -donnan), exchange, gas, solid solution, MIX, COPY, DUMP
static void b_pitz(int t, BodyOut &o) { run_body(t, o, IN_BRINE.c_str(), false, &MINI_PITZ); }
static void b_sit(int t, BodyOut &o) { run_body(t, o, IN_BRINE.c_str(), false, &MINI_SIT); }
static void b_llnl(int t, BodyOut &o) { run_body(t, o, IN_BRINE.c_str(), false, &MINI_LLNL); }
static void b_err(int t, BodyOut &o) {
  int id = create(o, t);
  addi(o, "run_unloaded", RunString(id, IN_ERR2.c_str()));
  add(o, "err0", GetErrorString(id));
  addi(o, "load", LoadDatabaseString(id, MINI.c_str()));
  strings_on(id);
  int rc = RunString(id, IN_ERR.c_str());
  add_all(o, id, rc);
  rc = RunString(id, IN_ERR2.c_str());
  check_mark(o, id, t);
  add_all(o, id, rc);
  addi(o, "badload", LoadDatabaseString(id, "SOLUTION_MASTER_SPECIES\n Q Q+ 0 Q\nEND\n") != 0);
  add(o, "err1", GetErrorString(id));
  addi(o, "destroy", DestroyIPhreeqc(id));
}
static void b_cpp(int t, BodyOut &o) {
  IPhreeqc *p = new IPhreeqc;
  int id = p->GetId();
  o.ids.push_back(id);
  mark(id, t);
  p->SetErrorFileOn(false); p->SetOutputFileOn(false); p->SetLogFileOn(false); p->SetDumpFileOn(false); p->SetSelectedOutputFileOn(false);
  addi(o, "load", p->LoadDatabaseString(MINI.c_str()));
  p->SetOutputStringOn(true); p->SetSelectedOutputStringOn(true); p->SetDumpStringOn(true); p->SetErrorStringOn(true); p->SetLogStringOn(true);
  const char *s = IN_SPEC.c_str();
  while (*s) {
    const char *e = strchr(s, '\n');
    std::string line(s, e ? (size_t)(e - s) : strlen(s));
    p->AccumulateLine(line.c_str());
    s = e ? e + 1 : s + strlen(s);
  }
  int rc = p->RunAccumulated();
  check_mark(o, id, t);
  add_all(o, id, rc);          // the C functions reach the C++-created object through its id
  add(o, "cppout", p->GetOutputString());
  delete p;
  addi(o, "after_delete", GetOutputFileOn(id));
}

const BodyDef BODIES[] = {
    {"reg", b_reg}, {"spec", b_spec}, {"kin", b_kin}, {"basic", b_basic}, {"adv", b_adv}, {"trn", b_trn},
    {"trm", b_trm}, {"inv", b_inv}, {"err", b_err}, {"cpp", b_cpp}, {"load", b_load},
    {"pitz", b_pitz}, {"sit", b_sit}, {"llnl", b_llnl}, {"rx", b_rx},
};
const int NBODIES = sizeof(BODIES) / sizeof(BODIES[0]);
const BodyDef *body_by_name(const char *n) {
  for (int i = 0; i < NBODIES; i++) if (!strcmp(BODIES[i].name, n)) return &BODIES[i];
  return nullptr;
}
