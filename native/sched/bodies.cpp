// Thread bodies for property C06 (see bodies.h).  Compiled with -fno-access-control only for registry_size().
#include "bodies.h"
#include <cstdio>
#include <cstdlib>
#include <cstring>
#include "IPhreeqc.hpp"
#include "IPhreeqc.h"
#include "Var.h"

static std::string MINI;       // text of data/c06/mini.dat
static std::string DBDIR;      // <repo>/database

unsigned long long fnv1a(const std::string &s) {
  unsigned long long h = 1469598103934665603ULL;
  for (unsigned char c : s) { h ^= c; h *= 1099511628211ULL; }
  return h;
}

static std::string readfile(const char *f) {
  FILE *fp = fopen(f, "rb");
  if (!fp) { perror(f); exit(2); }
  std::string s; char b[65536]; size_t n;
  while ((n = fread(b, 1, sizeof b, fp)) > 0) s.append(b, n);
  fclose(fp);
  return s;
}

void bodies_init(const char *mini, const char *dbdir) { MINI = readfile(mini); DBDIR = dbdir; }
size_t registry_size() { return IPhreeqc::Instances.size(); }

// ---------------------------------------------------------------- observation helpers
static void add(BodyOut &o, const char *tag, const char *s) {
  o.obs += tag; o.obs += "=[";
  // mask the elapsed-time banner (the only wall-clock dependent text the library prints)
  const char *p = s ? s : "(null)";
  while (*p) {
    const char *e = strchr(p, '\n');
    size_t n = e ? (size_t)(e - p) + 1 : strlen(p);
    if (!(n >= 16 && memmem(p, n, "End of Run after", 16))) o.obs.append(p, n);
    p += n;
  }
  o.obs += "]\n";
}
static void addi(BodyOut &o, const char *tag, long v) { char b[64]; snprintf(b, sizeof b, "%s=%ld\n", tag, v); o.obs += b; }

static void add_tables(BodyOut &o, int id) {
  int nsel = GetSelectedOutputCount(id);
  addi(o, "selcount", nsel);
  for (int k = 0; k < nsel; k++) {
    int n = GetNthSelectedOutputUserNumber(id, k);
    SetCurrentSelectedOutputUserNumber(id, n);
    int R = GetSelectedOutputRowCount(id), C = GetSelectedOutputColumnCount(id);
    char b[96]; snprintf(b, sizeof b, "table %d %dx%d\n", n, R, C); o.obs += b;
    for (int r = 0; r < R; r++) {
      for (int c = 0; c < C; c++) {
        VAR v; VarInit(&v);
        IPQ_RESULT rc = GetSelectedOutputValue(id, r, c, &v);
        if (rc != IPQ_OK) { snprintf(b, sizeof b, "E%d", (int)rc); o.obs += b; }
        else if (v.type == TT_DOUBLE) { snprintf(b, sizeof b, "%.17g", v.dVal); o.obs += b; }
        else if (v.type == TT_LONG) { snprintf(b, sizeof b, "L%ld", v.lVal); o.obs += b; }
        else if (v.type == TT_STRING) { o.obs += "S"; o.obs += v.sVal; }
        else if (v.type == TT_EMPTY) o.obs += "-";
        else { snprintf(b, sizeof b, "T%d", (int)v.type); o.obs += b; }
        o.obs += (c + 1 < C) ? "\t" : "\n";
        VarClear(&v);
      }
    }
    add(o, "selstring", GetSelectedOutputString(id));
  }
}

static void add_all(BodyOut &o, int id, int rc) {
  addi(o, "rc", rc);
  add(o, "err", GetErrorString(id));
  add(o, "warn", GetWarningString(id));
  add(o, "out", GetOutputString(id));
  add(o, "log", GetLogString(id));
  add(o, "dump", GetDumpString(id));
  addi(o, "outlines", GetOutputStringLineCount(id));
  add_tables(o, id);
  int nc = GetComponentCount(id);
  addi(o, "ncomp", nc);
  for (int i = 0; i < nc; i++) add(o, "comp", GetComponent(id, i));
}

static void mark(int id, int tidx) { char b[32]; snprintf(b, sizeof b, "marker-t%d.dmp", tidx); SetDumpFileName(id, b); }
static void check_mark(BodyOut &o, int id, int tidx) {
  char b[32]; snprintf(b, sizeof b, "marker-t%d.dmp", tidx);
  const char *g = GetDumpFileName(id);
  if (!g || strcmp(g, b) != 0) o.wrong_object = true;
}

static int create(BodyOut &o, int tidx) {
  int id = CreateIPhreeqc();
  o.ids.push_back(id);
  addi(o, "created_ok", id >= 0);
  if (id >= 0) {
    mark(id, tidx);
    SetErrorFileOn(id, 0); SetOutputFileOn(id, 0); SetLogFileOn(id, 0); SetDumpFileOn(id, 0); SetSelectedOutputFileOn(id, 0);
  }
  return id;
}
static void strings_on(int id) { SetOutputStringOn(id, 1); SetErrorStringOn(id, 1); SetLogStringOn(id, 1); SetDumpStringOn(id, 1); SetSelectedOutputStringOn(id, 1); }

static void run_body(int tidx, BodyOut &o, const char *input, bool big_db = false) {
  int id = create(o, tidx);
  int rc = big_db ? LoadDatabase(id, (DBDIR + "/phreeqc.dat").c_str()) : LoadDatabaseString(id, MINI.c_str());
  addi(o, "load", rc);
  strings_on(id);
  rc = RunString(id, input);
  check_mark(o, id, tidx);
  add_all(o, id, rc);
  addi(o, "destroy", DestroyIPhreeqc(id));
  addi(o, "after_destroy", GetOutputStringLineCount(id));   // documented: 0 lines / bad instance
}

// ---------------------------------------------------------------- inputs
static const char *IN_SPEC =
    "SOLUTION 1\n temp 25\n pH 7 charge\n Na 1\n Cl 1\n Ca 0.5\n C 1\n"
    "SELECTED_OUTPUT 1\n -reset false\n -pH true\n -totals Na Ca C\n -molalities HCO3- CaCO3\n -saturation_indices Calcite CO2(g)\n"
    "USER_PUNCH 1\n -headings mu tc\n 10 PUNCH MU, TC\n"
    "SELECTED_OUTPUT 2\n -reset false\n -high_precision true\n -activities H+ Ca+2\nEND\n"
    "USE solution 1\nEQUILIBRIUM_PHASES 1\n Calcite 0 1\n CO2(g) -2 1\nSAVE solution 2\nDUMP\n -solution 2\nEND\n";

static const char *IN_KIN =
    "SOLUTION 1\n Na 1\n Cl 1\nKINETICS 1\n Decay\n -formula NaCl 1\n -m 0.01\n -parms 1e-3\n -steps 300 in 3 steps\n"
    "INCREMENTAL_REACTIONS true\n"
    "SELECTED_OUTPUT 1\n -reset false\n -time true\n -kinetic_reactants Decay\n -totals Na\nEND\n"
    "USE solution 1\nKINETICS 2\n Decay\n -formula NaCl 1\n -m 0.02\n -parms 2e-3\n -steps 100 200\n -cvode true\nEND\n";

static const char *IN_BASIC =
    "SOLUTION 1\n Na 1\n Cl 1\n Ca 2\n C 1\n"
    "CALCULATE_VALUES\n twice_ca\n -start\n 10 SAVE 2*TOT(\"Ca\")\n -end\n"
    "USER_PRINT\n -start\n 10 FOR i = 1 TO 5\n 20 s = s + i * i\n 30 NEXT i\n 40 PUT(s, 1, 2)\n 50 PRINT \"sumsq\", s, GET(1, 2), CALC_VALUE(\"twice_ca\")\n"
    " 60 a$ = \"abc\" + STR$(LEN(\"hello\"))\n 70 PRINT a$, MID$(a$, 2, 2), INSTR(a$, \"c\")\n 80 IF s > 50 THEN GOSUB 200\n 90 END\n 200 PRINT \"big\", LOG10(s), EXP(1)\n 210 RETURN\n -end\n"
    "SELECTED_OUTPUT 1\n -reset false\nUSER_PUNCH 1\n -headings a b c\n 10 DIM v(3)\n 20 v(1) = MOL(\"Na+\")\n 30 v(2) = LA(\"Ca+2\")\n 40 v(3) = SI(\"Calcite\")\n 50 PUNCH v(1), v(2), v(3)\nEND\n";

static const char *IN_ADV =
    "SOLUTION 0\n Ca 0.6\n Cl 1.2\nSOLUTION 1-3\n Na 1\n Cl 1\nEXCHANGE 1-3\n X 0.0011\n -equilibrate 1\n"
    "ADVECTION\n -cells 3\n -shifts 3\n -punch_cells 1-3\n -punch_frequency 1\n"
    "SELECTED_OUTPUT 1\n -reset false\n -step true\n -totals Na Ca Cl\n -molalities NaX CaX2\nEND\n";

static const char *IN_TRN =
    "SOLUTION 0\n Ca 0.6\n Cl 1.2\nSOLUTION 1-3\n Na 1\n Cl 1\nEXCHANGE 1-3\n X 0.0011\n -equilibrate 1\n"
    "TRANSPORT\n -cells 3\n -shifts 2\n -lengths 0.1\n -dispersivities 0.01\n -diffusion_coefficient 1e-9\n -time_step 100\n -punch_cells 1-3\n"
    "SELECTED_OUTPUT 1\n -reset false\n -step true\n -totals Na Ca Cl\nEND\n";

static const char *IN_TRM =
    "SOLUTION 0\n Ca 0.6\n Cl 1.2\nSOLUTION 1-4\n Na 1\n Cl 1\n"
    "TRANSPORT\n -cells 4\n -shifts 2\n -flow_direction diffusion_only\n -boundary_conditions constant closed\n -lengths 0.05\n -time_step 1000\n"
    " -multi_d true 1e-9 0.3 0.05 1.0\n -punch_cells 1-4\n"
    "SELECTED_OUTPUT 1\n -reset false\n -step true\n -totals Na Ca Cl\nEND\n";

static const char *IN_INV =
    "SOLUTION 1\n pH 7.5\n Na 1\n Cl 1\n Ca 0.5\n C 1.2\n"
    "SOLUTION 2\n pH 7.2\n Na 1.4\n Cl 1.4\n Ca 0.9\n C 2.1\n"
    "INVERSE_MODELING 1\n -solutions 1 2\n -uncertainty 0.05\n -phases\n  Calcite\n  CO2(g)\n  Halite\n -range\n -balances\n  Na 0.05\n"
    "SELECTED_OUTPUT 1\n -reset false\n -inverse_modeling true\nEND\n";

static const char *IN_ERR = "SOLUTION 1\n Xx 1\n Na 1\nEND\nSOLUTION 2\n Na 1\nEND\n";
static const char *IN_ERR2 = "SOLUTION 1\n Na 1\n Cl 1\nREACTION 1\n NaCl 1\n 0.001 0.002\nSELECTED_OUTPUT 1\n -reset false\n -totals Na\nEND\n";

// ---------------------------------------------------------------- bodies
static void b_reg(int t, BodyOut &o) {
  int a = create(o, t), b = create(o, t);
  addi(o, "distinct", a != b);
  addi(o, "g1", GetOutputFileOn(a)); addi(o, "g2", GetErrorStringOn(b)); addi(o, "g3", GetCurrentSelectedOutputUserNumber(a));
  SetOutputStringOn(a, 1); addi(o, "iso", GetOutputStringOn(b));
  check_mark(o, a, t); check_mark(o, b, t);
  addi(o, "d1", DestroyIPhreeqc(a));
  int c = create(o, t);
  addi(o, "fresh", c != a && c != b);
  addi(o, "dead", GetOutputFileOn(a));
  check_mark(o, b, t); check_mark(o, c, t);
  addi(o, "d2", DestroyIPhreeqc(b)); addi(o, "d3", DestroyIPhreeqc(c)); addi(o, "d4", DestroyIPhreeqc(c));
}
static void b_spec(int t, BodyOut &o) { run_body(t, o, IN_SPEC); }
static void b_kin(int t, BodyOut &o) { run_body(t, o, IN_KIN); }
static void b_basic(int t, BodyOut &o) { run_body(t, o, IN_BASIC); }
static void b_adv(int t, BodyOut &o) { run_body(t, o, IN_ADV); }
static void b_trn(int t, BodyOut &o) { run_body(t, o, IN_TRN); }
static void b_trm(int t, BodyOut &o) { run_body(t, o, IN_TRM); }
static void b_inv(int t, BodyOut &o) { run_body(t, o, IN_INV); }
static void b_load(int t, BodyOut &o) { run_body(t, o, IN_SPEC, true); }
static void b_err(int t, BodyOut &o) {
  int id = create(o, t);
  addi(o, "run_unloaded", RunString(id, IN_ERR2));
  add(o, "err0", GetErrorString(id));
  addi(o, "load", LoadDatabaseString(id, MINI.c_str()));
  strings_on(id);
  int rc = RunString(id, IN_ERR);
  add_all(o, id, rc);
  rc = RunString(id, IN_ERR2);
  check_mark(o, id, t);
  add_all(o, id, rc);
  addi(o, "badload", LoadDatabaseString(id, "SOLUTION_MASTER_SPECIES\n Q Q+ 0 Q\nEND\n") != 0);
  add(o, "err1", GetErrorString(id));
  addi(o, "destroy", DestroyIPhreeqc(id));
}
static void b_cpp(int t, BodyOut &o) {
  IPhreeqc *p = new IPhreeqc;
  int id = p->GetId();
  o.ids.push_back(id);
  mark(id, t);
  p->SetErrorFileOn(false); p->SetOutputFileOn(false); p->SetLogFileOn(false); p->SetDumpFileOn(false); p->SetSelectedOutputFileOn(false);
  addi(o, "load", p->LoadDatabaseString(MINI.c_str()));
  p->SetOutputStringOn(true); p->SetSelectedOutputStringOn(true); p->SetDumpStringOn(true); p->SetErrorStringOn(true); p->SetLogStringOn(true);
  const char *s = IN_SPEC;
  while (*s) {
    const char *e = strchr(s, '\n');
    std::string line(s, e ? (size_t)(e - s) : strlen(s));
    p->AccumulateLine(line.c_str());
    s = e ? e + 1 : s + strlen(s);
  }
  int rc = p->RunAccumulated();
  check_mark(o, id, t);
  add_all(o, id, rc);          // the C functions reach the C++-created object through its id
  add(o, "cppout", p->GetOutputString());
  delete p;
  addi(o, "after_delete", GetOutputFileOn(id));
}

const BodyDef BODIES[] = {
    {"reg", b_reg}, {"spec", b_spec}, {"kin", b_kin}, {"basic", b_basic}, {"adv", b_adv}, {"trn", b_trn},
    {"trm", b_trm}, {"inv", b_inv}, {"err", b_err}, {"cpp", b_cpp}, {"load", b_load},
};
const int NBODIES = sizeof(BODIES) / sizeof(BODIES[0]);
const BodyDef *body_by_name(const char *n) {
  for (int i = 0; i < NBODIES; i++) if (!strcmp(BODIES[i].name, n)) return &BODIES[i];
  return nullptr;
}
