// vsched - controlled scheduler and stateless preemption-bounded schedule explorer for property C06.
//
// The library under test is compiled with clang's ThreadSanitizer *instrumentation* (variant "tsabi") but linked
// against the tiny runtime in this file instead of libtsan, so every load/store the library performs is reported
// here.  Real pthreads execute the bodies (bodies.cpp), exactly one of them runnable at any time.
//
// Visible events (= scheduling points): thread start, thread end, lock / trylock of a modelled mutex (every
// pthread mutex in the executable's static storage: map_lock, qsort_lock and whatever a change adds), acquisition of
// a function-local-static guard, and a write to static storage that another thread has touched before in this
// execution.  At every point the enabled threads are listed in canonical order (the running thread first, then
// ascending ids); a schedule is the list of deviations (position, alternative index) from "always take choice 0".
//
// One forked child per schedule (fresh statics, crash containment).  The explorer enumerates depth-first every
// schedule whose number of preemptions (switching away from a thread that could continue) is <= the bound;
// switches at blocking or termination are free.  Oracle per schedule: happens-before data races on static storage
// (vector clocks, release->acquire on modelled mutexes), deadlock, unique ids, empty registry, object identity, and
// per-thread observation == the observation of the same body run alone.
//
// usage:
//   vsched run     --mini F --dbdir D --bodies a,b[,c] [--devs pos:alt,pos:alt,...] [--dump DIR]
//   vsched explore --mini F --dbdir D --bodies a,b[,c] --bound N [--jobs J] [--deadline SECONDS] --scratch DIR
#include <pthread.h>
#include <semaphore.h>
#include <dlfcn.h>
#include <unistd.h>
#include <fcntl.h>
#include <poll.h>
#include <signal.h>
#include <dirent.h>
#include <stdarg.h>
#include <sys/mman.h>
#include <sys/stat.h>
#include <sys/wait.h>
#include <sys/time.h>
#include <cerrno>
#include <cstdio>
#include <cstdlib>
#include <cstring>
#include <cstdint>
#include <string>
#include <vector>
#include <set>
#include <map>
#include <algorithm>
#include "bodies.h"

extern "C" char __data_start, _end;

enum { K_START = 0, K_LOCK = 1, K_WRITE = 2, K_END = 3, K_TRYLOCK = 4, K_GUARD = 5 };
static const int MAXT = 4;
static const uint32_t MAX_POINTS = 400000;

// ------------------------------------------------------------------------------------------ child-side state
struct Th {
  int state;            // 0 not started, 1 live, 2 finished
  sem_t sem;
  int pend_kind;
  const void *pend_obj;
  uint32_t vc[MAXT];
  const BodyDef *body;
  BodyOut out;
  pthread_t pt;
};
struct Mx { const void *addr; int owner; uint32_t vc[MAXT]; };
struct Pt { int8_t cur; uint8_t mask; uint8_t n; uint8_t chosen; uint8_t kind; uint8_t cur_enabled; };
struct Dev { uint32_t pos; uint32_t alt; };
struct Race { uintptr_t addr; uint8_t t1, w1, t2, w2; };   // w2 bit 1 set: found by the lockset rule, not by happens-before

static Th *th;     // on the heap: the harness's own state must not look like the library's static storage
static int nth = 0;
static volatile bool active = false;
static __thread int self = -1;
static std::vector<Mx> *mxs;
static std::vector<Pt> *trace;
static std::vector<Dev> devs;
static size_t devi = 0;
static uint32_t pos = 0;
static sem_t main_sem;
static int res_fd = -1;
static std::vector<Race> *races;
static std::vector<std::string> *diags;
static long n_static_r = 0, n_static_w = 0, n_lock = 0;

// shadow memory for the executable's static storage (byte granular)
static uintptr_t st_lo, st_hi;
static uint32_t *sh_wclk;            // clock of last write
static int8_t *sh_wtid;              // thread of last write (+1; 0 = none)
static uint32_t *sh_rclk[MAXT];      // clock of last read per thread
static uint8_t *sh_touch;            // bit mask of threads that touched the byte
static uint8_t *sh_state;            // Eraser state: 0 virgin, 1 exclusive, 2 shared (read only), 3 shared-modified
static int8_t *sh_owner;             // first thread (exclusive state)
static uint32_t *sh_ls;              // candidate lockset (bit i = i-th modelled mutex)
static uint32_t held[MAXT];          // modelled mutexes currently held per thread
static std::vector<uintptr_t> *written;   // distinct static addresses written while the bodies ran

static void out_line(const char *fmt, ...) {
  char b[4096];
  va_list ap; va_start(ap, fmt);
  int n = vsnprintf(b, sizeof b, fmt, ap);
  va_end(ap);
  if (n > (int)sizeof b - 1) n = sizeof b - 1;
  size_t off = 0;
  while (off < (size_t)n) { ssize_t k = write(res_fd, b + off, n - off); if (k <= 0) _exit(90); off += k; }
}

static void flush_result(const char *status);

static Mx &mutex_of(const void *a) {
  for (auto &m : *mxs) if (m.addr == a) return m;
  Mx m; m.addr = a; m.owner = -1; memset(m.vc, 0, sizeof m.vc);
  mxs->push_back(m);
  return mxs->back();
}

static bool enabled(int u) {
  if (th[u].state == 2) return false;
  if (th[u].state == 1 && (th[u].pend_kind == K_LOCK || th[u].pend_kind == K_GUARD)) {
    Mx &m = mutex_of(th[u].pend_obj);
    if (m.owner >= 0) return false;       // held (by another thread, or by itself: self-deadlock on a normal mutex)
  }
  return true;
}

// Called by the running thread `me` (or by main with me = -1) when it reaches a visible event.
static void schedule(int me) {
  int en[MAXT], n = 0;
  bool me_en = me >= 0 && enabled(me);
  if (me_en) en[n++] = me;
  for (int i = 0; i < nth; i++) if (i != me && enabled(i)) en[n++] = i;
  if (n == 0) {
    bool all = true;
    for (int i = 0; i < nth; i++) if (th[i].state != 2) all = false;
    if (all) { sem_post(&main_sem); return; }
    flush_result("deadlock");
    _exit(0);
  }
  uint32_t c = 0;
  if (devi < devs.size() && devs[devi].pos == pos) { c = devs[devi].alt; devi++; }
  if (c >= (uint32_t)n) { flush_result("diverged"); _exit(0); }
  Pt p; p.cur = (int8_t)me; p.n = (uint8_t)n; p.chosen = (uint8_t)c; p.cur_enabled = me_en;
  p.kind = me >= 0 ? (uint8_t)th[me].pend_kind : (uint8_t)K_START;
  p.mask = 0; for (int i = 0; i < n; i++) p.mask |= (uint8_t)(1 << en[i]);
  trace->push_back(p);
  pos++;
  if (pos > MAX_POINTS) { flush_result("cap"); _exit(0); }
  int next = en[c];
  if (next == me) return;
  sem_post(&th[next].sem);
  if (me >= 0 && th[me].state != 2) {
    while (sem_wait(&th[me].sem) != 0) {}
  }
}

static void point(int kind, const void *obj) {
  th[self].pend_kind = kind; th[self].pend_obj = obj;
  schedule(self);
}

static inline bool is_static(const void *a) { uintptr_t p = (uintptr_t)a; return p >= st_lo && p < st_hi; }

static void add_race(uintptr_t addr, int t1, int w1, int t2, int w2) {
  for (auto &r : *races) if ((r.addr >> 3) == (addr >> 3)) return;      // one entry per 8-byte granule
  if (races->size() < 512) races->push_back(Race{addr, (uint8_t)t1, (uint8_t)w1, (uint8_t)t2, (uint8_t)w2});
}

// one access of `size` bytes at static address a by the running thread
static void static_access(const void *a, unsigned size, int is_write) {
  int t = self;
  uintptr_t off = (uintptr_t)a - st_lo;
  if (off + size > st_hi - st_lo) size = (unsigned)(st_hi - st_lo - off);
  if (is_write) {
    n_static_w++;
    bool other = false;
    for (unsigned i = 0; i < size; i++) if (sh_touch[off + i] & ~(1u << t)) { other = true; break; }
    if (other) point(K_WRITE, a);
  } else n_static_r++;
  uint32_t my = th[t].vc[t];
  size_t nr0 = races->size();
  for (unsigned i = 0; i < size; i++) {
    uintptr_t o = off + i;
    int wt = sh_wtid[o] - 1;
    if (wt >= 0 && wt != t && sh_wclk[o] > th[t].vc[wt]) add_race(st_lo + o, wt, 1, t, is_write);
    if (is_write) {
      for (int u = 0; u < nth; u++) if (u != t && sh_rclk[u][o] > th[t].vc[u]) add_race(st_lo + o, u, 0, t, 1);
      sh_wclk[o] = my; sh_wtid[o] = (int8_t)(t + 1);
    } else sh_rclk[t][o] = my;
    sh_touch[o] |= (uint8_t)(1u << t);
    // lockset discipline (Eraser): a location written after it became shared must have a common modelled lock
    uint8_t stt = sh_state[o];
    if (stt == 0) { sh_state[o] = 1; sh_owner[o] = (int8_t)t; }
    else if (stt == 1) {
      if (sh_owner[o] != t) { sh_state[o] = is_write ? 3 : 2; sh_ls[o] = held[t]; if (is_write && !held[t]) add_race(st_lo + o, sh_owner[o], 1, t, 1 | 2); }
    } else {
      sh_ls[o] &= held[t];
      if (is_write) sh_state[o] = 3;
      if (sh_state[o] == 3 && !sh_ls[o]) {
        int other = sh_owner[o];
        if (other == t) for (int u = 0; u < nth; u++) if (u != t && (sh_touch[o] & (1u << u))) { other = u; break; }
        add_race(st_lo + o, other, 1, t, (is_write ? 1 : 0) | 2);
      }
    }
  }
  if (races->size() > nr0 + 1) races->resize(nr0 + 1);      // one entry per racing access, not per byte
  if (is_write && written->size() < 4096) {
    uintptr_t a0 = (uintptr_t)a;
    if (std::find(written->begin(), written->end(), a0) == written->end()) written->push_back(a0);
  }
}

extern "C" void vs_access(const void *a, unsigned size, int is_write) {
  if (!active || self < 0) return;
  static_access(a, size, is_write);
}

// ------------------------------------------------------------------------------------------ TSan ABI
#define VS_FAST(a, n, w) do { uintptr_t p_ = (uintptr_t)(a); if (p_ >= st_lo && p_ < st_hi) vs_access((const void *)p_, n, w); } while (0)
extern "C" {
void __tsan_init() {}
void __tsan_func_entry(void *) {}
void __tsan_func_exit() {}
void __tsan_read1(void *a) { VS_FAST(a, 1, 0); }
void __tsan_read2(void *a) { VS_FAST(a, 2, 0); }
void __tsan_read4(void *a) { VS_FAST(a, 4, 0); }
void __tsan_read8(void *a) { VS_FAST(a, 8, 0); }
void __tsan_read16(void *a) { VS_FAST(a, 16, 0); }
void __tsan_write1(void *a) { VS_FAST(a, 1, 1); }
void __tsan_write2(void *a) { VS_FAST(a, 2, 1); }
void __tsan_write4(void *a) { VS_FAST(a, 4, 1); }
void __tsan_write8(void *a) { VS_FAST(a, 8, 1); }
void __tsan_write16(void *a) { VS_FAST(a, 16, 1); }
void __tsan_unaligned_read2(void *a) { VS_FAST(a, 2, 0); }
void __tsan_unaligned_read4(void *a) { VS_FAST(a, 4, 0); }
void __tsan_unaligned_read8(void *a) { VS_FAST(a, 8, 0); }
void __tsan_unaligned_read16(void *a) { VS_FAST(a, 16, 0); }
void __tsan_unaligned_write2(void *a) { VS_FAST(a, 2, 1); }
void __tsan_unaligned_write4(void *a) { VS_FAST(a, 4, 1); }
void __tsan_unaligned_write8(void *a) { VS_FAST(a, 8, 1); }
void __tsan_unaligned_write16(void *a) { VS_FAST(a, 16, 1); }
void __tsan_vptr_read(void **a) { VS_FAST(a, 8, 0); }
void __tsan_vptr_update(void **a, void *) { VS_FAST(a, 8, 1); }
void __tsan_read_range(void *a, unsigned long n) { VS_FAST(a, (unsigned)n, 0); }
void __tsan_write_range(void *a, unsigned long n) { VS_FAST(a, (unsigned)n, 1); }
}

// ------------------------------------------------------------------------------------------ modelled mutexes
typedef int (*mx_fn)(pthread_mutex_t *);
static mx_fn real_lock, real_unlock, real_trylock;
static void resolve_real() {
  if (!real_lock) {
    real_lock = (mx_fn)dlsym(RTLD_NEXT, "pthread_mutex_lock");
    real_unlock = (mx_fn)dlsym(RTLD_NEXT, "pthread_mutex_unlock");
    real_trylock = (mx_fn)dlsym(RTLD_NEXT, "pthread_mutex_trylock");
  }
}
static inline bool modelled(const void *m) { return active && self >= 0 && is_static(m); }

static int mx_index(const Mx &m) { return (int)(&m - &(*mxs)[0]); }
static void acquire(Mx &m) {
  int t = self;
  m.owner = t;
  if (mx_index(m) < 32) held[t] |= 1u << mx_index(m);
  for (int u = 0; u < MAXT; u++) if (m.vc[u] > th[t].vc[u]) th[t].vc[u] = m.vc[u];
}
static void release(Mx &m) {
  int t = self;
  memcpy(m.vc, th[t].vc, sizeof m.vc);
  th[t].vc[t]++;
  m.owner = -1;
  if (mx_index(m) < 32) held[t] &= ~(1u << mx_index(m));
}

extern "C" int pthread_mutex_lock(pthread_mutex_t *m) {
  if (!modelled(m)) { resolve_real(); return real_lock(m); }
  n_lock++;
  point(K_LOCK, m);
  Mx &x = mutex_of(m);
  if (x.owner >= 0) { flush_result("internal-lock-held"); _exit(0); }
  acquire(x);
  return 0;
}
extern "C" int pthread_mutex_trylock(pthread_mutex_t *m) {
  if (!modelled(m)) { resolve_real(); return real_trylock(m); }
  point(K_TRYLOCK, m);
  Mx &x = mutex_of(m);
  if (x.owner >= 0) return EBUSY;
  acquire(x);
  return 0;
}
extern "C" int pthread_mutex_unlock(pthread_mutex_t *m) {
  if (!modelled(m)) { resolve_real(); return real_unlock(m); }
  Mx &x = mutex_of(m);
  if (x.owner == self) release(x);
  else {
    // unlocking a mutex this thread does not hold: undefined for a default mutex; glibc simply releases it
    char b[160];
    snprintf(b, sizeof b, "unlock-by-non-owner mutex=+0x%lx thread=%d owner=%d", (unsigned long)((uintptr_t)m - st_lo), self, x.owner);
    if (diags->size() < 8) diags->push_back(b);
    if (x.owner >= 0 && mx_index(x) < 32) held[x.owner] &= ~(1u << mx_index(x));
    x.owner = -1;
  }
  return 0;
}

// function-local statics: modelled as locks so that a descheduled initialiser cannot hang the harness
extern "C" int __cxa_guard_acquire(long long *g) {
  if (*(volatile char *)g) return 0;
  if (!(active && self >= 0)) return 1;
  point(K_GUARD, g);
  Mx &x = mutex_of(g);
  acquire(x);
  if (*(volatile char *)g) { release(x); return 0; }
  return 1;
}
extern "C" void __cxa_guard_release(long long *g) {
  *(volatile char *)g = 1;
  if (active && self >= 0) { Mx &x = mutex_of(g); if (x.owner == self) release(x); }
}
extern "C" void __cxa_guard_abort(long long *g) {
  if (active && self >= 0) { Mx &x = mutex_of(g); if (x.owner == self) release(x); }
}

// ------------------------------------------------------------------------------------------ libc writers into static buffers
// (the instrumented library calls these; writes they perform are invisible to the compiler instrumentation)
#define NOTE_W(d, n) do { if (active && self >= 0 && (n) && is_static(d)) static_access((d), (unsigned)(n), 1); } while (0)
#define NOTE_R(s, n) do { if (active && self >= 0 && (n) && is_static(s)) static_access((s), (unsigned)(n), 0); } while (0)
extern "C" {
void *memcpy(void *d, const void *s, size_t n) {
  NOTE_R(s, n); NOTE_W(d, n);
  char *dp = (char *)d; const char *sp = (const char *)s;
  while (n >= 8) { uint64_t v; __builtin_memcpy(&v, sp, 8); __builtin_memcpy(dp, &v, 8); dp += 8; sp += 8; n -= 8; }
  while (n--) *dp++ = *sp++;
  return d;
}
void *memmove(void *d, const void *s, size_t n) {
  NOTE_R(s, n); NOTE_W(d, n);
  char *dp = (char *)d; const char *sp = (const char *)s;
  if (dp == sp || n == 0) return d;
  if (dp < sp || dp >= sp + n) { while (n--) *dp++ = *sp++; }
  else { dp += n; sp += n; while (n--) *--dp = *--sp; }
  return d;
}
void *memset(void *d, int c, size_t n) {
  NOTE_W(d, n);
  unsigned char *dp = (unsigned char *)d;
  uint64_t v = 0x0101010101010101ULL * (unsigned char)c;
  while (n >= 8) { __builtin_memcpy(dp, &v, 8); dp += 8; n -= 8; }
  while (n--) *dp++ = (unsigned char)c;
  return d;
}
char *strcpy(char *d, const char *s) {
  size_t n = 0; while (s[n]) n++;
  NOTE_R(s, n + 1); NOTE_W(d, n + 1);
  for (size_t i = 0; i <= n; i++) d[i] = s[i];
  return d;
}
char *strncpy(char *d, const char *s, size_t n) {
  NOTE_W(d, n);
  size_t i = 0;
  for (; i < n && s[i]; i++) d[i] = s[i];
  for (; i < n; i++) d[i] = 0;
  return d;
}
char *strcat(char *d, const char *s) {
  size_t dl = 0; while (d[dl]) dl++;
  size_t n = 0; while (s[n]) n++;
  NOTE_W(d + dl, n + 1);
  for (size_t i = 0; i <= n; i++) d[dl + i] = s[i];
  return d;
}
int __vsnprintf_chk(char *, size_t, int, size_t, const char *, va_list);
int vsnprintf(char *d, size_t n, const char *fmt, va_list ap) {
  int r = __vsnprintf_chk(d, n, 0, (size_t)-1, fmt, ap);
  if (r >= 0 && n) NOTE_W(d, (size_t)r + 1 < n ? (size_t)r + 1 : n);
  return r;
}
int vsprintf(char *d, const char *fmt, va_list ap) {
  int r = __vsnprintf_chk(d, (size_t)-1 >> 1, 0, (size_t)-1, fmt, ap);
  if (r >= 0) NOTE_W(d, (size_t)r + 1);
  return r;
}
int snprintf(char *d, size_t n, const char *fmt, ...) {
  va_list ap; va_start(ap, fmt);
  int r = __vsnprintf_chk(d, n, 0, (size_t)-1, fmt, ap);
  va_end(ap);
  if (r >= 0 && n) NOTE_W(d, (size_t)r + 1 < n ? (size_t)r + 1 : n);
  return r;
}
int sprintf(char *d, const char *fmt, ...) {
  va_list ap; va_start(ap, fmt);
  int r = __vsnprintf_chk(d, (size_t)-1 >> 1, 0, (size_t)-1, fmt, ap);
  va_end(ap);
  if (r >= 0) NOTE_W(d, (size_t)r + 1);
  return r;
}
}

// ------------------------------------------------------------------------------------------ running one schedule (child)
static void *thread_main(void *arg) {
  int k = (int)(long)arg;
  self = k;
  while (sem_wait(&th[k].sem) != 0) {}
  th[k].state = 1;
  memset(th[k].vc, 0, sizeof th[k].vc);
  th[k].vc[k] = 1;
  th[k].body->fn(k, th[k].out);
  th[k].state = 2;
  th[k].pend_kind = K_END;
  schedule(k);
  return nullptr;
}

static std::string dump_dir;

static void flush_result(const char *status) {
  // may be called from any thread (deadlock / divergence) - everything else is parked
  active = false;
  out_line("status %s\n", status);
  out_line("counts %ld %ld %ld\n", n_static_r, n_static_w, n_lock);
  out_line("points %zu\n", trace->size());
  std::string buf;
  char b[64];
  for (auto &p : *trace) {
    snprintf(b, sizeof b, "P %d %u %u %u %u %u\n", (int)p.cur, p.mask, p.n, p.chosen, p.kind, p.cur_enabled);
    buf += b;
    if (buf.size() > 3500) { out_line("%s", buf.c_str()); buf.clear(); }
  }
  if (!buf.empty()) out_line("%s", buf.c_str());
  for (auto &r : *races) out_line("race %lx %u %u %u %u\n", (unsigned long)r.addr, r.t1, r.w1, r.t2, r.w2);
  for (auto &d : *diags) out_line("diag %s\n", d.c_str());
  for (auto a : *written) out_line("wr %lx\n", (unsigned long)a);
  if (!strcmp(status, "deadlock")) {
    for (int i = 0; i < nth; i++)
      out_line("diag thread %d state=%d pending=%d obj=+0x%lx\n", i, th[i].state, th[i].pend_kind,
               th[i].pend_obj ? (unsigned long)((uintptr_t)th[i].pend_obj - st_lo) : 0ul);
  }
}

static void run_child(const std::vector<const BodyDef *> &bodies, int fd) {
  res_fd = fd;
  nth = (int)bodies.size();
  sem_init(&main_sem, 0, 0);
  for (int i = 0; i < nth; i++) {
    th[i].state = 0; th[i].body = bodies[i]; th[i].pend_kind = K_START; th[i].pend_obj = nullptr;
    sem_init(&th[i].sem, 0, 0);
    pthread_attr_t at; pthread_attr_init(&at); pthread_attr_setstacksize(&at, 64u << 20);
    if (pthread_create(&th[i].pt, &at, thread_main, (void *)(long)i) != 0) { out_line("status internal-pthread_create\n"); _exit(0); }
  }
  active = true;
  schedule(-1);
  while (sem_wait(&main_sem) != 0) {}
  active = false;
  for (int i = 0; i < nth; i++) pthread_join(th[i].pt, nullptr);
  flush_result("ok");
  for (int i = 0; i < nth; i++) {
    out_line("obs %d %016llx %zu %d\n", i, fnv1a(th[i].out.obs), th[i].out.obs.size(), th[i].out.wrong_object ? 1 : 0);
    std::string ids = "ids " + std::to_string(i);
    for (int id : th[i].out.ids) ids += " " + std::to_string(id);
    out_line("%s\n", ids.c_str());
    if (!dump_dir.empty()) {
      std::string f = dump_dir + "/obs_t" + std::to_string(i) + "_" + th[i].body->name + ".txt";
      FILE *fp = fopen(f.c_str(), "wb");
      if (fp) { fwrite(th[i].out.obs.data(), 1, th[i].out.obs.size(), fp); fclose(fp); }
    }
  }
  out_line("registry %zu\n", registry_size());
  out_line("end\n");
}

static void setup_shadow() {
  st_lo = (uintptr_t)&__data_start; st_hi = (uintptr_t)&_end;
  size_t n = st_hi - st_lo;
  auto mm = [](size_t bytes) { void *p = mmap(nullptr, bytes, PROT_READ | PROT_WRITE, MAP_PRIVATE | MAP_ANONYMOUS | MAP_NORESERVE, -1, 0); if (p == MAP_FAILED) { perror("mmap"); exit(2); } return p; };
  sh_wclk = (uint32_t *)mm(n * 4); sh_wtid = (int8_t *)mm(n); sh_touch = (uint8_t *)mm(n);
  for (int i = 0; i < MAXT; i++) sh_rclk[i] = (uint32_t *)mm(n * 4);
  sh_state = (uint8_t *)mm(n); sh_owner = (int8_t *)mm(n); sh_ls = (uint32_t *)mm(n * 4);
  written = new std::vector<uintptr_t>;
  th = new Th[MAXT];
  mxs = new std::vector<Mx>; mxs->reserve(64);
  trace = new std::vector<Pt>; trace->reserve(4096);
  races = new std::vector<Race>; diags = new std::vector<std::string>;
}

// ------------------------------------------------------------------------------------------ parent side
struct Result {
  std::string status;      // ok deadlock diverged cap crash:<sig> hang exit:<code> truncated
  std::vector<Pt> pts;
  std::vector<Race> races;
  std::vector<std::string> diags;
  std::vector<uintptr_t> written;
  std::vector<unsigned long long> obs;
  std::vector<int> wrong;
  std::vector<std::vector<int>> ids;
  long registry = -1;
  long cr = 0, cw = 0, cl = 0;
};

static std::vector<const BodyDef *> g_bodies;
static std::string g_scratch;
static int g_timeout_ms = 60000;

static void clean_dir(const std::string &d) {
  DIR *D = opendir(d.c_str());
  if (!D) return;
  while (dirent *e = readdir(D)) {
    if (!strcmp(e->d_name, ".") || !strcmp(e->d_name, "..")) continue;
    unlink((d + "/" + e->d_name).c_str());
  }
  closedir(D);
}

static Result exec_schedule(const std::vector<const BodyDef *> &bodies, const std::vector<Dev> &dv, int timeout_ms, const std::string &dump = "") {
  Result r;
  int pf[2];
  if (pipe(pf) != 0) { perror("pipe"); exit(2); }
  fflush(stdout);
  pid_t c = fork();
  if (c < 0) { perror("fork"); exit(2); }
  if (c == 0) {
    close(pf[0]);
    if (chdir(g_scratch.c_str()) != 0) _exit(91);
    int dn = open("/dev/null", O_WRONLY);
    if (dn >= 0) { dup2(dn, 1); dup2(dn, 2); }
    devs = dv; devi = 0; pos = 0; dump_dir = dump;
    run_child(bodies, pf[1]);
    _exit(0);
  }
  close(pf[1]);
  std::string data;
  char buf[65536];
  struct timeval t0; gettimeofday(&t0, nullptr);
  bool timed_out = false;
  for (;;) {
    struct timeval t1; gettimeofday(&t1, nullptr);
    long el = (t1.tv_sec - t0.tv_sec) * 1000 + (t1.tv_usec - t0.tv_usec) / 1000;
    if (el >= timeout_ms) { timed_out = true; break; }
    struct pollfd p = {pf[0], POLLIN, 0};
    int k = poll(&p, 1, (int)(timeout_ms - el));
    if (k < 0) { if (errno == EINTR) continue; break; }
    if (k == 0) { timed_out = true; break; }
    ssize_t n = read(pf[0], buf, sizeof buf);
    if (n <= 0) break;
    data.append(buf, n);
  }
  close(pf[0]);
  if (timed_out) kill(c, SIGKILL);
  int st = 0;
  waitpid(c, &st, 0);
  clean_dir(g_scratch);
  // parse
  size_t p0 = 0;
  bool ended = false;
  while (p0 < data.size()) {
    size_t e = data.find('\n', p0);
    if (e == std::string::npos) break;
    std::string l = data.substr(p0, e - p0);
    p0 = e + 1;
    const char *s = l.c_str();
    if (!strncmp(s, "P ", 2)) {
      int cur; unsigned mask, n, ch, kind, ce;
      if (sscanf(s + 2, "%d %u %u %u %u %u", &cur, &mask, &n, &ch, &kind, &ce) == 6)
        r.pts.push_back(Pt{(int8_t)cur, (uint8_t)mask, (uint8_t)n, (uint8_t)ch, (uint8_t)kind, (uint8_t)ce});
    } else if (!strncmp(s, "status ", 7)) r.status = s + 7;
    else if (!strncmp(s, "counts ", 7)) sscanf(s + 7, "%ld %ld %ld", &r.cr, &r.cw, &r.cl);
    else if (!strncmp(s, "race ", 5)) {
      unsigned long a; unsigned t1, w1, t2, w2;
      if (sscanf(s + 5, "%lx %u %u %u %u", &a, &t1, &w1, &t2, &w2) == 5) r.races.push_back(Race{(uintptr_t)a, (uint8_t)t1, (uint8_t)w1, (uint8_t)t2, (uint8_t)w2});
    } else if (!strncmp(s, "diag ", 5)) r.diags.push_back(s + 5);
    else if (!strncmp(s, "wr ", 3)) r.written.push_back((uintptr_t)strtoul(s + 3, nullptr, 16));
    else if (!strncmp(s, "obs ", 4)) {
      int t; unsigned long long h; size_t len; int w;
      if (sscanf(s + 4, "%d %llx %zu %d", &t, &h, &len, &w) == 4) { r.obs.push_back(h); r.wrong.push_back(w); }
    } else if (!strncmp(s, "ids ", 4)) {
      std::vector<int> v; char *q = (char *)s + 4; strtol(q, &q, 10);
      while (*q) { char *e2; long id = strtol(q, &e2, 10); if (e2 == q) break; v.push_back((int)id); q = e2; }
      r.ids.push_back(v);
    } else if (!strncmp(s, "registry ", 9)) r.registry = atol(s + 9);
    else if (l == "end") ended = true;
  }
  if (timed_out) r.status = "hang";
  else if (WIFSIGNALED(st)) r.status = "crash:" + std::to_string(WTERMSIG(st));
  else if (WIFEXITED(st) && WEXITSTATUS(st) != 0) r.status = "exit:" + std::to_string(WEXITSTATUS(st));
  else if (r.status == "ok" && !ended) r.status = "truncated";
  else if (r.status.empty()) r.status = "truncated";
  return r;
}

static std::string devs_str(const std::vector<Dev> &d) {
  std::string s;
  for (size_t i = 0; i < d.size(); i++) { if (i) s += ","; s += std::to_string(d[i].pos) + ":" + std::to_string(d[i].alt); }
  return s;
}

// ---- exploration state of one worker
struct Viol { std::string type, detail, devs; };
struct Stats {
  long schedules = 0;
  size_t max_points = 0;
  std::set<unsigned long long> outcomes;
  std::map<uintptr_t, std::pair<Race, std::string>> races;   // addr -> (first race, devs)
  std::vector<Viol> viols;
  std::set<std::string> viol_keys;
  std::set<std::string> diags;
  std::set<uintptr_t> written;
  bool complete = true;
  long max_depth = 0;
};
static Stats S;
static int g_bound = 1;
static double g_deadline = 0;
static std::vector<unsigned long long> g_ref;     // per thread: observation hash of the body run alone

static double now() { struct timeval t; gettimeofday(&t, nullptr); return t.tv_sec + t.tv_usec * 1e-6; }

static void add_viol(const std::string &type, const std::string &detail, const std::vector<Dev> &dv) {
  std::string key = type + "|" + detail;
  if (S.viol_keys.count(key)) return;
  S.viol_keys.insert(key);
  if (S.viols.size() < 64) S.viols.push_back(Viol{type, detail, devs_str(dv)});
}

static void judge(const Result &r, const std::vector<Dev> &dv) {
  S.schedules++;
  S.max_points = std::max(S.max_points, r.pts.size());
  for (auto &d : r.diags) if (S.diags.size() < 16) S.diags.insert(d);
  for (auto a : r.written) S.written.insert(a);
  for (auto &rc : r.races) if (!S.races.count(rc.addr)) S.races[rc.addr] = std::make_pair(rc, devs_str(dv));
  if (r.status != "ok") {
    std::string detail = r.status;
    if (r.status == "deadlock") { detail = "deadlock"; for (auto &d : r.diags) if (d.rfind("thread ", 0) == 0) detail += "; " + d; }
    add_viol(r.status.substr(0, r.status.find(':')), detail, dv);
    return;
  }
  // outcome key: id assignment pattern + observation hashes
  unsigned long long oc = 1469598103934665603ULL;
  auto mix = [&](unsigned long long v) { oc ^= v; oc *= 1099511628211ULL; };
  std::vector<int> all;
  for (size_t t = 0; t < r.ids.size(); t++) { for (int id : r.ids[t]) { all.push_back(id); mix((unsigned long long)id * 31 + t); } mix(0xfffff); }
  for (auto h : r.obs) mix(h);
  S.outcomes.insert(oc);
  std::sort(all.begin(), all.end());
  for (size_t i = 0; i + 1 < all.size(); i++)
    if (all[i] == all[i + 1]) add_viol("ids", "instance id " + std::to_string(all[i]) + " handed out twice", dv);
  for (int id : all) if (id < 0) add_viol("ids", "CreateIPhreeqc failed (negative id)", dv);
  if (r.registry != 0) add_viol("registry", "registry holds " + std::to_string(r.registry) + " instances after every body destroyed its own", dv);
  for (size_t t = 0; t < r.obs.size(); t++) {
    if (r.wrong[t]) add_viol("wrongobj", std::string("a call with a live id reached another object, body ") + g_bodies[t]->name, dv);
    if (t < g_ref.size() && r.obs[t] != g_ref[t]) add_viol("obs", std::string("observation of body ") + g_bodies[t]->name + " (thread " + std::to_string(t) + ") differs from the same body run alone", dv);
  }
}

static bool prefix_equal(const Result &parent, const Result &child, size_t upto) {
  if (child.pts.size() < upto) return child.status != "ok";   // a failed run may stop early
  for (size_t i = 0; i < upto; i++) {
    const Pt &a = parent.pts[i], &b = child.pts[i];
    if (a.cur != b.cur || a.mask != b.mask || a.kind != b.kind) return false;
  }
  return true;
}

static void explore(const std::vector<Dev> &dv, int cost, const Result *parent) {
  if (g_deadline > 0 && now() > g_deadline) { S.complete = false; return; }
  Result r = exec_schedule(g_bodies, dv, g_timeout_ms);
  if (r.status == "hang") {           // rule R3: re-run alone with a much longer limit before calling it a hang
    r = exec_schedule(g_bodies, dv, g_timeout_ms * 20);
  }
  if (parent && !dv.empty() && !prefix_equal(*parent, r, dv.back().pos)) {
    fprintf(stderr, "HARNESS ERROR: nondeterministic replay of schedule prefix %s\n", devs_str(dv).c_str());
    exit(2);
  }
  judge(r, dv);
  S.max_depth = std::max(S.max_depth, (long)dv.size());
  if (r.status != "ok") return;
  size_t start = dv.empty() ? 0 : dv.back().pos + 1;
  for (size_t i = start; i < r.pts.size(); i++) {
    const Pt &p = r.pts[i];
    if (p.n < 2) continue;
    int c = cost + (p.cur_enabled ? 1 : 0);
    if (c > g_bound) continue;
    for (unsigned alt = 1; alt < p.n; alt++) {
      std::vector<Dev> nd(dv);
      nd.push_back(Dev{(uint32_t)i, alt});
      explore(nd, c, &r);
    }
  }
}

static std::string jesc(const std::string &s) {
  std::string o;
  for (char ch : s) { if (ch == '"' || ch == '\\') { o += '\\'; o += ch; } else if (ch == '\n') o += "\\n"; else if ((unsigned char)ch < 0x20) o += ' '; else o += ch; }
  return o;
}

static void emit_stats(FILE *f) {
  fprintf(f, "schedules %ld\nmaxpoints %zu\ncomplete %d\nmaxdepth %ld\n", S.schedules, S.max_points, S.complete ? 1 : 0, S.max_depth);
  for (auto o : S.outcomes) fprintf(f, "outcome %llx\n", o);
  for (auto &kv : S.races) fprintf(f, "race %lx %u %u %u %u %s\n", (unsigned long)kv.first, kv.second.first.t1, kv.second.first.w1, kv.second.first.t2, kv.second.first.w2, kv.second.second.empty() ? "-" : kv.second.second.c_str());
  for (auto &v : S.viols) fprintf(f, "viol %s\t%s\t%s\n", v.type.c_str(), v.detail.c_str(), v.devs.empty() ? "-" : v.devs.c_str());
  for (auto &d : S.diags) fprintf(f, "diag %s\n", d.c_str());
  for (auto a : S.written) fprintf(f, "wr %lx\n", (unsigned long)a);
  fflush(f);
}

static std::vector<std::string> split(const std::string &s, char sep) {
  std::vector<std::string> v; size_t p = 0;
  while (p <= s.size()) { size_t e = s.find(sep, p); if (e == std::string::npos) e = s.size(); if (e > p) v.push_back(s.substr(p, e - p)); p = e + 1; }
  return v;
}

int main(int argc, char **argv) {
  if (argc < 2) { fprintf(stderr, "usage: vsched run|explore ...\n"); return 2; }
  std::string mode = argv[1], mini, dbdir, bodies, devarg, scratch, dump;
  int jobs = 1; double deadline = 0;
  for (int i = 2; i < argc; i++) {
    std::string a = argv[i];
    auto val = [&]() { if (i + 1 >= argc) { fprintf(stderr, "missing value for %s\n", a.c_str()); exit(2); } return std::string(argv[++i]); };
    if (a == "--mini") mini = val(); else if (a == "--dbdir") dbdir = val(); else if (a == "--bodies") bodies = val();
    else if (a == "--devs") devarg = val(); else if (a == "--bound") g_bound = atoi(val().c_str()); else if (a == "--jobs") jobs = atoi(val().c_str());
    else if (a == "--deadline") deadline = atof(val().c_str()); else if (a == "--scratch") scratch = val(); else if (a == "--dump") dump = val();
    else if (a == "--timeout-ms") g_timeout_ms = atoi(val().c_str());
    else { fprintf(stderr, "unknown argument %s\n", a.c_str()); return 2; }
  }
  if (mini.empty() || dbdir.empty() || bodies.empty() || scratch.empty()) { fprintf(stderr, "--mini --dbdir --bodies --scratch are required\n"); return 2; }
  bodies_init(mini.c_str(), dbdir.c_str());
  for (auto &n : split(bodies, ',')) {
    const BodyDef *b = body_by_name(n.c_str());
    if (!b) { fprintf(stderr, "unknown body %s\n", n.c_str()); return 2; }
    g_bodies.push_back(b);
  }
  if (g_bodies.empty() || (int)g_bodies.size() > MAXT) { fprintf(stderr, "1..%d bodies\n", MAXT); return 2; }
  mkdir(scratch.c_str(), 0777);
  g_scratch = scratch;
  resolve_real();
  setup_shadow();
  signal(SIGPIPE, SIG_IGN);
  std::vector<Dev> dv;
  for (auto &t : split(devarg, ',')) { unsigned p, a; if (sscanf(t.c_str(), "%u:%u", &p, &a) == 2) dv.push_back(Dev{p, a}); }

  // sequential reference: every body alone, twice (R4: must be deterministic)
  for (auto *b : g_bodies) {
    std::vector<const BodyDef *> one{b};
    Result a = exec_schedule(one, {}, g_timeout_ms * 5), c = exec_schedule(one, {}, g_timeout_ms * 5);
    if (getenv("VS_NOREF")==nullptr && (a.status != "ok" || c.status != "ok" || a.obs.size() != 1 || a.obs != c.obs)) {
      fprintf(stderr, "HARNESS ERROR: body %s alone: status %s/%s or nondeterministic observation\n", b->name, a.status.c_str(), c.status.c_str());
      return 2;
    }
    g_ref.push_back(a.obs[0]);
  }

  if (mode == "run") {
    if (!dump.empty()) {
      mkdir(dump.c_str(), 0777);
      for (size_t i = 0; i < g_bodies.size(); i++) {       // reference observations next to the scheduled ones
        std::vector<const BodyDef *> one{g_bodies[i]};
        std::string d = dump + "/ref" + std::to_string(i);
        mkdir(d.c_str(), 0777);
        exec_schedule(one, {}, g_timeout_ms * 5, d);
      }
    }
    Result r = exec_schedule(g_bodies, dv, g_timeout_ms * 5, dump);
    judge(r, dv);
    printf("status %s\npoints %zu\nstatic_reads %ld static_writes %ld lock_ops %ld\n", r.status.c_str(), r.pts.size(), r.cr, r.cw, r.cl);
    for (size_t t = 0; t < r.obs.size(); t++) {
      printf("thread %zu body %s obs %016llx ref %016llx ids", t, g_bodies[t]->name, r.obs[t], g_ref[t]);
      for (int id : r.ids[t]) printf(" %d", id);
      printf("\n");
    }
    emit_stats(stdout);
    return 0;
  }
  if (mode != "explore") { fprintf(stderr, "unknown mode\n"); return 2; }
  if (deadline > 0) g_deadline = now() + deadline;

  // root schedule, replayed once: identical trace and observations
  Result root = exec_schedule(g_bodies, {}, g_timeout_ms * 5);
  Result root2 = exec_schedule(g_bodies, {}, g_timeout_ms * 5);
  if (root.status != root2.status || root.pts.size() != root2.pts.size() || root.obs != root2.obs || !prefix_equal(root, root2, root.pts.size())) {
    fprintf(stderr, "HARNESS ERROR: the default schedule does not replay identically (%s %zu / %s %zu)\n", root.status.c_str(), root.pts.size(), root2.status.c_str(), root2.pts.size());
    return 2;
  }
  judge(root, {});
  // first-level alternatives, distributed round-robin over worker processes
  struct First { uint32_t pos, alt; int cost; };
  std::vector<First> first;
  if (root.status == "ok")
    for (size_t i = 0; i < root.pts.size(); i++) {
      const Pt &p = root.pts[i];
      int c = p.cur_enabled ? 1 : 0;
      if (c > g_bound) continue;
      for (unsigned alt = 1; alt < p.n; alt++) first.push_back(First{(uint32_t)i, alt, c});
    }
  if (jobs < 1) jobs = 1;
  std::vector<pid_t> pids; std::vector<int> fds;
  for (int w = 0; w < jobs; w++) {
    int pf[2];
    if (pipe(pf) != 0) { perror("pipe"); return 2; }
    fflush(stdout);
    pid_t c = fork();
    if (c == 0) {
      close(pf[0]);
      for (int fd : fds) close(fd);
      g_scratch = scratch + "/w" + std::to_string(w);
      mkdir(g_scratch.c_str(), 0777);
      S = Stats();
      for (size_t k = w; k < first.size(); k += jobs) {
        std::vector<Dev> d{Dev{first[k].pos, first[k].alt}};
        explore(d, first[k].cost, &root);
      }
      FILE *f = fdopen(pf[1], "w");
      emit_stats(f);
      fclose(f);
      rmdir(g_scratch.c_str());
      _exit(0);
    }
    close(pf[1]);
    pids.push_back(c); fds.push_back(pf[0]);
  }
  // merge
  bool worker_failed = false;
  for (size_t w = 0; w < fds.size(); w++) {
    FILE *f = fdopen(fds[w], "r");
    char line[8192];
    while (fgets(line, sizeof line, f)) {
      size_t L = strlen(line);
      if (L && line[L - 1] == '\n') line[--L] = 0;
      if (!strncmp(line, "schedules ", 10)) S.schedules += atol(line + 10);
      else if (!strncmp(line, "maxpoints ", 10)) S.max_points = std::max(S.max_points, (size_t)atol(line + 10));
      else if (!strncmp(line, "maxdepth ", 9)) S.max_depth = std::max(S.max_depth, atol(line + 9));
      else if (!strncmp(line, "complete ", 9)) { if (atoi(line + 9) == 0) S.complete = false; }
      else if (!strncmp(line, "outcome ", 8)) S.outcomes.insert(strtoull(line + 8, nullptr, 16));
      else if (!strncmp(line, "race ", 5)) {
        unsigned long a; unsigned t1, w1, t2, w2; char d[4096];
        if (sscanf(line + 5, "%lx %u %u %u %u %4095s", &a, &t1, &w1, &t2, &w2, d) == 6 && !S.races.count(a))
          S.races[a] = std::make_pair(Race{(uintptr_t)a, (uint8_t)t1, (uint8_t)w1, (uint8_t)t2, (uint8_t)w2}, std::string(d) == "-" ? "" : d);
      } else if (!strncmp(line, "viol ", 5)) {
        std::vector<std::string> p = split(std::string(line + 5), '\t');
        if (p.size() == 3) { std::string key = p[0] + "|" + p[1]; if (!S.viol_keys.count(key)) { S.viol_keys.insert(key); S.viols.push_back(Viol{p[0], p[1], p[2] == "-" ? "" : p[2]}); } }
      } else if (!strncmp(line, "diag ", 5)) S.diags.insert(line + 5);
      else if (!strncmp(line, "wr ", 3)) S.written.insert((uintptr_t)strtoul(line + 3, nullptr, 16));
    }
    fclose(f);
    int st = 0;
    waitpid(pids[w], &st, 0);
    if (!WIFEXITED(st) || WEXITSTATUS(st) != 0) worker_failed = true;
  }
  if (worker_failed) { fprintf(stderr, "HARNESS ERROR: an explorer worker failed\n"); return 2; }
  // JSON summary
  printf("{\"bodies\":\"%s\",\"bound\":%d,\"schedules\":%ld,\"root_points\":%zu,\"max_points\":%zu,\"outcomes\":%zu,\"complete\":%s,\"max_deviations\":%ld,",
         jesc(bodies).c_str(), g_bound, S.schedules, root.pts.size(), S.max_points, S.outcomes.size(), S.complete ? "true" : "false", S.max_depth);
  printf("\"root_counts\":{\"static_reads\":%ld,\"static_writes\":%ld,\"lock_ops\":%ld},\"static_lo\":\"%lx\",", root.cr, root.cw, root.cl, (unsigned long)st_lo);
  printf("\"races\":[");
  bool firstj = true;
  for (auto &kv : S.races) {
    printf("%s{\"addr\":\"%lx\",\"t1\":%u,\"w1\":%u,\"t2\":%u,\"w2\":%u,\"devs\":\"%s\"}", firstj ? "" : ",", (unsigned long)kv.first, kv.second.first.t1, kv.second.first.w1, kv.second.first.t2, kv.second.first.w2, kv.second.second.c_str());
    firstj = false;
  }
  printf("],\"violations\":[");
  firstj = true;
  for (auto &v : S.viols) { printf("%s{\"type\":\"%s\",\"detail\":\"%s\",\"devs\":\"%s\"}", firstj ? "" : ",", jesc(v.type).c_str(), jesc(v.detail).c_str(), v.devs.c_str()); firstj = false; }
  printf("],\"diags\":[");
  firstj = true;
  for (auto &d : S.diags) { printf("%s\"%s\"", firstj ? "" : ",", jesc(d).c_str()); firstj = false; }
  printf("],\"written\":[");
  firstj = true;
  for (auto a : S.written) { printf("%s\"%lx\"", firstj ? "" : ",", (unsigned long)a); firstj = false; }
  printf("]}\n");
  return 0;
}
