// Thread bodies shared by the schedule explorer (vsched) and the free-running ThreadSanitizer companion (freerun).
// Each body uses only the public C / C++ API on instances it creates itself.
#pragma once
#include <string>
#include <vector>

struct BodyOut {
  std::string obs;          // everything the body observed (ids and thread index masked)
  std::vector<int> ids;     // every instance id handed out to this body
  bool wrong_object = false;  // a call with a live id reached an object that does not carry this thread's marker
};

typedef void (*body_fn)(int tidx, BodyOut &out);
struct BodyDef { const char *name; body_fn fn; };

extern const BodyDef BODIES[];
extern const int NBODIES;

// single-threaded, before any body runs: reads data/c06/mini.dat (and remembers the repository's database directory)
void bodies_init(const char *mini_dat_path, const char *repo_database_dir);
const BodyDef *body_by_name(const char *name);
// number of entries in IPhreeqc::Instances (read without the lock; call only when no body is running)
size_t registry_size();
unsigned long long fnv1a(const std::string &s);
