#!/bin/sh
# MANIFEST.setup_cmd: offline; checks tool presence and pre-builds the library variants and harnesses from /repo.
cd "$(dirname "$0")" || exit 2
for t in python3-vt cmake ninja g++ clang++; do
  command -v "$t" >/dev/null 2>&1 || { echo "missing tool: $t"; exit 2; }
done
python3-vt -c 'import jsonschema' || { echo "jsonschema missing in python3-vt"; exit 2; }
mkdir -p build evidence replays
python3-vt -m mc.setup || exit 2
echo "setup ok"
